"""Slot-level harness: real Output / adapter / Input objects wired without a Composition,
the way finam's own unit tests drive them (chain, ping, exchange_info, push, pull)."""
from datetime import datetime, timedelta

import finam as fm

T0 = datetime(2000, 1, 1)


def t(sec):
    """integer seconds after T0 -> datetime"""
    return T0 + timedelta(seconds=int(sec))


def sec(time):
    return int(round((time - T0).total_seconds()))


def wire(out, adapters, inputs, memory=None, location=None):
    """out >> a1 >> ... >> an >> each input (fan-out at the end of the adapter chain)"""
    x = out
    for a in adapters:
        x = x >> a
    for inp in inputs:
        x >> inp
    for s in [out] + list(adapters):
        if memory is not None:
            s.memory_limit = memory
            s.memory_location = location
    for inp in inputs:
        inp.ping()
    return x


def exchange(inputs):
    for inp in inputs:
        inp.exchange_info()


def simple_link(out_info, in_info, adapters=(), n_inputs=1, static=False, memory=None, location=None):
    out = fm.Output(name="out", info=out_info, static=static)
    inputs = [fm.Input(name=f"in{k}", info=in_info.copy_with() if k else in_info, static=static) for k in range(n_inputs)]
    wire(out, list(adapters), inputs, memory, location)
    exchange(inputs)
    return out, inputs
