"""Evidence writer: what this run actually observed, validated against the given schema."""
import json
import os

from . import boot

SCHEMA = "/root/.vp/EVIDENCE.schema.json"


def _jsonable(x):
    return json.loads(json.dumps(x, default=str))


def write(prop, tier, seed, agg, wall, violations, known, inconclusive, jobs, first_violations=()):
    cov = {
        "evaluations": int(agg.n),
        "distinct_nontrivial": int(len(agg.keys)),
        "rule": prop.rule,
        "samples": _jsonable(agg.samples[:3]) or ["(no non-trivial case observed)"],
        "exhaustive": bool(prop.exhaustive.get(tier, False)),
        "monitor_counters": {k: int(v) for k, v in sorted(agg.counters.items()) if not k.startswith("anchor_calls ")},
        "anchored_code_executions": {k[len("anchor_calls "):]: int(v) for k, v in sorted(agg.counters.items()) if k.startswith("anchor_calls ")},
        "unconstrained_or_observed_classes": {k[:200]: int(v) for k, v in sorted(agg.notes.items())},
        "processes": jobs,
    }
    cov.update(_jsonable(prop.extra_coverage(agg.counters, tier)))
    ev = {
        "property_id": prop.id,
        "tier": tier,
        "seed": int(seed),
        "level": prop.level,
        "coverage": cov,
        "assumptions": list(prop.assumptions),
        "wall_s": round(float(wall), 2),
        "violations": int(violations),
        "verdict": "violated" if violations else ("inconclusive" if inconclusive else "held_on_observed"),
        "inconclusive_reasons": list(inconclusive),
        "known_findings_reported": list(known),
        "first_violations": _jsonable(list(first_violations)),
        "technique": prop.technique,
        "finam_src": boot.finam_src(),
        "repo_head": boot.repo_head(),
    }
    # break-validation runs against scratch copies (VERIF_FINAM_SRC) write elsewhere
    path = os.path.join(os.environ.get("VERIF_EVIDENCE_DIR") or os.path.join(boot.VERIF, "evidence"), f"{prop.id}.json")
    os.makedirs(os.path.dirname(path), exist_ok=True)
    try:
        import jsonschema  # pylint: disable=import-outside-toplevel

        with open(SCHEMA, encoding="utf-8") as f:
            schema = json.load(f)
        # a run that observed <2 non-trivial cases cannot produce schema-valid exploration
        # evidence; it is written anyway (verdict inconclusive) so the reason is visible
        errs = list(jsonschema.Draft202012Validator(schema).iter_errors(ev))
        if errs:
            ev["schema_errors"] = [e.message[:200] for e in errs[:5]]
    except (ImportError, OSError):
        ev["schema_errors"] = ["schema not checked (jsonschema or schema file unavailable)"]
    with open(path, "w", encoding="utf-8") as f:
        json.dump(ev, f, indent=1, sort_keys=False)
        f.write("\n")
    return path
