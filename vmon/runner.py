"""Generic driver: generate cases, shard them over processes, classify violations, write
evidence, decide the three-valued verdict.

A property module (vmon/props/cXX.py) exposes PROP, an instance of `Property`:
  n_cases(tier)            number of generated cases
  gen(rnd, i, tier)        JSON-able case spec, deterministic in (seed, i)
  run(spec)                -> Outcome (violations, non-trivial key, counters)
  coverage_gaps(counters, tier) -> list of strings: monitors/classes never reached (=> inconclusive)
"""
import hashlib
import importlib
import json
import os
import random
import subprocess
import sys
import time
import traceback

from . import boot

EXIT_HELD, EXIT_VIOLATION, EXIT_INCONCLUSIVE = 0, 1, 2


class Outcome:
    __slots__ = ("violations", "key", "counters", "notes", "sample")

    def __init__(self):
        self.violations = []  # list of dict(kind=..., detail=..., **witness)
        self.key = None  # str: distinct non-trivial key; None = trivial case
        self.counters = {}
        self.notes = []  # unconstrained / observation classes (strings)
        self.sample = None

    def viol(self, kind, detail, **witness):
        self.violations.append(dict(kind=kind, detail=str(detail)[:600], **witness))
        self.counters["viol_" + kind] = self.counters.get("viol_" + kind, 0) + 1

    def count(self, name, n=1):
        self.counters[name] = self.counters.get(name, 0) + n


class Property:
    id = "C00"
    level = "exploration"
    technique = "runtime monitor"
    rule = ""
    assumptions = ()
    cases = {"quick": 100, "thorough": 1000}
    min_nontrivial = {"quick": 20, "thorough": 200}
    jobs = {"quick": 4, "thorough": 16}
    exhaustive = {"quick": False, "thorough": False}
    case_timeout_s = 120
    anchors = ()  # "module:qualname" of the code the property is anchored in (evidence only)

    def n_cases(self, tier):
        return self.cases[tier]

    def gen(self, rnd, i, tier):
        raise NotImplementedError

    def run(self, spec):
        raise NotImplementedError

    def coverage_gaps(self, counters, tier):  # pylint: disable=unused-argument
        return []

    def extra_coverage(self, counters, tier):  # pylint: disable=unused-argument
        return {}


def case_rng(seed, pid, i):
    return random.Random(f"{seed}:{pid}:{i}")


def _finam_frame_in(tb):
    src = boot.finam_src() or "/repo/src"
    while tb is not None:
        if tb.tb_frame.f_code.co_filename.startswith(src):
            return True
        tb = tb.tb_next
    return False


def run_one(prop, spec):
    """Run one case; an exception escaping the property's own handling is a violation if
    it passed through finam code (crash on a valid input) and a monitor error otherwise."""
    try:
        out = prop.run(spec)
    except Exception as e:  # pylint: disable=broad-except
        out = Outcome()
        tb = traceback.format_exc()
        if _finam_frame_in(e.__traceback__):
            out.viol("unexpected_exception", f"{type(e).__name__}: {e}", exc=type(e).__name__, trace=tb[-1500:])
        else:
            out.counters["monitor_error"] = 1
            out.notes.append("MONITOR-ERROR " + tb[-1500:])
    return out


def _short(key):
    """distinct-case keys are only counted: long ones are replaced by a 64-bit digest"""
    key = str(key)
    return key if len(key) <= 24 else hashlib.blake2b(key.encode(), digest_size=8).hexdigest()


class Agg:
    def __init__(self):
        self.n = 0
        self.keys = set()
        self.counters = {}
        self.notes = {}
        self.viol = []  # (index, spec, violation)
        self.samples = []
        self.errors = []

    def add(self, i, spec, out, keep_samples=3):
        self.n += 1
        if isinstance(out.key, (set, list, tuple, frozenset)):
            self.keys.update(_short(k) for k in out.key)
        elif out.key is not None:
            self.keys.add(_short(out.key))
        for k, v in out.counters.items():
            self.counters[k] = self.counters.get(k, 0) + v
        for s in out.notes:
            if s.startswith("MONITOR-ERROR"):
                self.errors.append((i, s))
            else:
                self.notes[s] = self.notes.get(s, 0) + 1
        for v in out.violations:
            if len(self.viol) < 200:
                self.viol.append((i, spec, v))
            self.counters["violation_events"] = self.counters.get("violation_events", 0) + 1
        if len(self.samples) < keep_samples and out.key:
            self.samples.append(out.sample if out.sample is not None else spec)

    def dump(self):
        return dict(
            n=self.n,
            keys=sorted(self.keys),
            counters=self.counters,
            notes=self.notes,
            viol=self.viol,
            samples=self.samples,
            errors=self.errors,
        )

    def merge(self, d):
        self.n += d["n"]
        self.keys.update(d["keys"])
        for k, v in d["counters"].items():
            self.counters[k] = self.counters.get(k, 0) + v
        for k, v in d["notes"].items():
            self.notes[k] = self.notes.get(k, 0) + v
        self.viol.extend(tuple(x) for x in d["viol"])
        for s in d["samples"]:
            if len(self.samples) < 4:
                self.samples.append(s)
        self.errors.extend(tuple(x) for x in d["errors"])


def run_range(prop, tier, seed, indices):
    from . import anchors  # pylint: disable=import-outside-toplevel

    agg = Agg()
    missing = anchors.start(prop.anchors)
    for spec in missing:
        agg.notes["anchor not found (renamed?): " + spec] = 1
    before = anchors.snapshot()
    try:
        _run_range(prop, tier, seed, indices, agg)
    finally:
        after = anchors.snapshot()
        for k, v in after.items():
            agg.counters["anchor_calls " + k] = agg.counters.get("anchor_calls " + k, 0) + v - before.get(k, 0)
    return agg


def _run_range(prop, tier, seed, indices, agg):
    for i in indices:
        spec = prop.gen(case_rng(seed, prop.id, i), i, tier)
        if spec is None:
            continue
        out = run_one(prop, spec)
        agg.add(i, spec, out)


def load_prop(pid):
    mod = importlib.import_module(f"vmon.props.{pid.lower()}")
    return mod.PROP


def main(argv):
    args = list(argv)
    if not args:
        print("usage: check <ID> quick|thorough | check <ID> --replay <path>")
        return EXIT_INCONCLUSIVE
    pid = args.pop(0).upper()
    tier = os.environ.get("VERIF_TIER", "quick")
    replay = shard = outfile = None
    while args:
        a = args.pop(0)
        if a in ("quick", "thorough"):
            tier = a
        elif a == "--replay":
            replay = os.path.abspath(args.pop(0))
        elif a == "--shard":
            shard = tuple(int(x) for x in args.pop(0).split("/"))
        elif a == "--out":
            outfile = args.pop(0)
    seed = int(os.environ.get("VERIF_SEED", "0"))
    boot.init()
    prop = load_prop(pid)
    if replay:
        return do_replay(prop, replay)
    if shard:
        k, jobs = shard
        n = int(os.environ.get("VERIF_N", prop.n_cases(tier)))
        agg = run_range(prop, tier, seed, range(k, n, jobs))
        with open(outfile, "w", encoding="utf-8") as f:
            json.dump(agg.dump(), f, default=str)
        return 0
    return parent(prop, tier, seed)


def parent(prop, tier, seed):
    from . import evidence, findings  # pylint: disable=import-outside-toplevel

    t0 = time.time()
    n = int(os.environ.get("VERIF_N", prop.n_cases(tier)))
    jobs = int(os.environ.get("VERIF_JOBS", prop.jobs[tier]))
    jobs = max(1, min(jobs, n, os.cpu_count() or 1))
    agg = Agg()
    inconclusive = []
    # 1. canonical witnesses of recorded findings (known: must still fail; fixed: must not)
    known_lines, kf_viol, kf_err = findings.run_witnesses(prop, run_one)
    inconclusive.extend(f"monitor error: {x}" for x in kf_err)
    # 2. generated workload
    if jobs == 1:
        agg = run_range(prop, tier, seed, range(n))
    else:
        procs = []
        scratch = boot.scratch_dir()
        for k in range(jobs):
            out = os.path.join(scratch, f"shard-{k}.json")
            env = dict(os.environ, VERIF_SEED=str(seed), PYTHONPATH=boot.VERIF)
            p = subprocess.Popen(
                [sys.executable, "-m", "vmon", prop.id, tier, "--shard", f"{k}/{jobs}", "--out", out],
                env=env,
                cwd=boot.VERIF,
                stdout=subprocess.PIPE,
                stderr=subprocess.STDOUT,
                text=True,
            )
            procs.append((k, p, out))
        # generous wall-clock watchdog (its firing is 'inconclusive', never a verdict)
        budget = min(8 * 3600, prop.case_timeout_s * max(1, n // jobs) + 600)
        for k, p, out in procs:
            try:
                so, _ = p.communicate(timeout=max(60, budget - (time.time() - t0)))
            except subprocess.TimeoutExpired:
                p.kill()
                so, _ = p.communicate()
                inconclusive.append(f"shard {k} hit the wall-clock watchdog")
                continue
            if p.returncode != 0 or not os.path.exists(out):
                inconclusive.append(f"shard {k} died (exit {p.returncode}): {so[-400:]}")
                continue
            with open(out, encoding="utf-8") as f:
                agg.merge(json.load(f))
    # 3. classify
    new_viol = list(kf_viol)
    known_hits = {}
    for i, spec, v in agg.viol:
        mech = findings.classify(prop.id, spec, v)
        if mech is not None:
            known_hits[mech] = known_hits.get(mech, 0) + 1
        else:
            new_viol.append((i, spec, v))
    for mech, cnt in known_hits.items():
        line = findings.known_line(prop.id, mech) + f" (reproduced by {cnt} generated case(s))"
        if line not in known_lines:
            known_lines.append(line)
    for i, s in agg.errors[:3]:
        inconclusive.append(f"monitor error in case {i}: {s[-300:]}")
    for k, v in agg.counters.items():
        if k.startswith("anchor_calls ") and v == 0:
            inconclusive.append(f"anchored code never executed: {k[len('anchor_calls '):]}")
    gaps = prop.coverage_gaps(agg.counters, tier)
    inconclusive.extend(f"coverage gap: {g}" for g in gaps)
    need = prop.min_nontrivial[tier]
    if "VERIF_N" not in os.environ and len(agg.keys) < need:
        inconclusive.append(f"only {len(agg.keys)} distinct non-trivial cases (need {need})")
    if len(agg.keys) < 2:
        inconclusive.append("fewer than 2 distinct non-trivial cases")
    # 4. report
    replay_paths = []
    for j, (i, spec, v) in enumerate(new_viol[:10]):
        path = os.path.join(os.environ.get("VERIF_REPLAY_DIR") or os.path.join(boot.VERIF, "replay"), prop.id, f"{tier}-seed{seed}-case{i}-{j}.json")
        os.makedirs(os.path.dirname(path), exist_ok=True)
        with open(path, "w", encoding="utf-8") as f:
            json.dump(dict(property=prop.id, tier=tier, seed=seed, index=i, violation=v, spec=spec), f, indent=1, default=str)
        replay_paths.append(path)
    for line in known_lines:
        print(line)
    wall = time.time() - t0
    evidence.write(
        prop, tier, seed, agg, wall,
        violations=len(new_viol), known=known_lines, inconclusive=inconclusive, jobs=jobs,
        first_violations=[v for _, _, v in new_viol[:5]],
    )
    summary = (
        f"{prop.id} {tier} seed={seed}: {agg.n} cases, {len(agg.keys)} distinct non-trivial, "
        f"{agg.counters.get('violation_events', 0)} violation events ({len(new_viol)} new), {wall:.1f}s"
    )
    print(summary)
    if new_viol:
        for (i, spec, v), path in zip(new_viol, replay_paths):
            print(f"  case {i}: {v.get('kind')}: {v.get('detail', '')[:300]}")
            print(f"VIOLATION property={prop.id} replay={path}")
        return EXIT_VIOLATION
    if inconclusive:
        for r in inconclusive:
            print(f"INCONCLUSIVE: {r}")
        return EXIT_INCONCLUSIVE
    return EXIT_HELD


def do_replay(prop, path):
    from . import findings  # pylint: disable=import-outside-toplevel

    with open(path, encoding="utf-8") as f:
        d = json.load(f)
    spec = d["spec"] if "spec" in d else d
    out = run_one(prop, spec)
    bad = 0
    for v in out.violations:
        mech = findings.classify(prop.id, spec, v)
        tag = f"known:{mech}" if mech else "NEW"
        print(f"[{tag}] {v.get('kind')}: {v.get('detail')}")
        if v.get("trace"):
            print(v["trace"])
        bad += mech is None
    for s in out.notes:
        print("note:", s[:2000])
    print("counters:", json.dumps(out.counters, sort_keys=True))
    if bad:
        print(f"VIOLATION property={prop.id} replay={path}")
        return EXIT_VIOLATION
    print("replay: no new violation")
    return EXIT_HELD
