"""C10 - spilling data to disk is invisible and leaves no files behind.

Differential monitor: the same producer -> [buffering adapter] -> consumer composition runs
without a memory limit and with a limit; everything the consumer receives (values, mask, units,
times) must be identical. A process-wide audit hook (sys.addaudithook: `open` for writing,
`os.remove`) keeps a ledger of files created and removed, independent of directory listings:
every created path must lie below the configured location and created - removed must be empty
once run() has returned (the directory listing is checked as well).
"""
import logging
import os
import sys

import numpy as np

import finam as fm
from finam.adapters import AvgOverTime, LinearTime, NextTime, PreviousTime, StepTime, SumOverTime

from ..harness import H, T0, hrs
from ..runner import Outcome, Property

LEDGER = {"on": False, "created": [], "removed": []}
_hooked = []


def _audit(event, args):
    if not LEDGER["on"]:
        return
    if event == "open":
        path, mode = args[0], args[1]
        if isinstance(path, (str, bytes, os.PathLike)) and isinstance(mode, str) and any(ch in mode for ch in "wxa+"):
            LEDGER["created"].append(os.path.abspath(os.fsdecode(path)))
    elif event in ("os.remove", "os.unlink"):
        LEDGER["removed"].append(os.path.abspath(os.fsdecode(args[0])))


def install_hook():
    if not _hooked:
        sys.addaudithook(_audit)
        _hooked.append(True)


GRID = dict(dims=(3, 4))
NVAL = 12
NBYTES = NVAL * 8
MASK = (np.arange(NVAL).reshape(3, 4) % 5 == 1)

SLOTS = {
    "output": None,
    "next": NextTime,
    "prev": PreviousTime,
    "linear": LinearTime,
    "step0": lambda: StepTime(0.0),
    "step5": lambda: StepTime(0.5),
    "avg": AvgOverTime,
    "avg_step": lambda: AvgOverTime(step=0.5),
    "sum_pt": lambda: SumOverTime(step=0.0, per_time=True),
    "sum_pt_lin": lambda: SumOverTime(step=None, per_time=True),
    "sum_abs": lambda: SumOverTime(step=0.0, per_time=False),
    "sum_abs_lin": lambda: SumOverTime(step=None, per_time=False),
}


class Prod(fm.TimeComponent):
    def __init__(self, step, payload, units, static_mask):
        super().__init__()
        self._name, self._stp, self.payload, self.units = "P", step, payload, units
        self._time = T0
        self.k = 0
        self.static_mask = static_mask
        self.reuse_state = False
        self.state = None
        self.retries = 0

    def _next_time(self):
        return self.time + H(self._stp)

    def grid(self):
        return fm.UniformGrid(GRID["dims"], data_location="POINTS")

    def _initialize(self):
        mask = fm.Mask.FLEX
        if self.payload == "masked_fixed":
            mask = MASK
        self.outputs.add(name="out", time=self.time, grid=self.grid(), units=self.units, mask=mask)
        self.create_connector()

    def value(self):
        base = (np.arange(NVAL, dtype=float).reshape(3, 4) + 1.0) * (1.0 + 0.5 * self.k) + self.k
        if self.payload == "plain":
            return base
        if self.payload == "masked_fixed":
            return np.ma.array(base, mask=MASK)
        if self.payload == "masked_varying":
            # time-varying mask, including publications where no cell is masked at all
            m = np.zeros((3, 4), bool) if self.k % 3 == 1 else (np.arange(NVAL).reshape(3, 4) % 4 == self.k % 4)
            return np.ma.array(base, mask=m)
        return fm.UNITS.Quantity(base, self.units)

    def _connect(self, st):
        self.try_connect(st, push_data={"out": self.value()})

    def _validate(self):
        pass

    def _update(self):
        self._time = self._next_time()
        self.k += 1
        if self.reuse_state and self.payload == "plain":
            # a model that publishes its (in-place updated) state array: the output refuses data that
            # shares memory with the previous publication, the component then publishes a copy
            if self.state is None:
                self.state = np.array(self.value())
            else:
                self.state[...] = self.value()
            try:
                self.outputs["out"].push_data(self.state, self.time)
            except fm.FinamDataError:
                self.retries += 1
                self.outputs["out"].push_data(self.state.copy(), self.time)
            return
        self.outputs["out"].push_data(self.value(), self.time)

    def _finalize(self):
        pass


class StaticProd(fm.Component):
    """component with one static output (constant field)"""

    def __init__(self):
        super().__init__()
        self._name = "S"

    def _initialize(self):
        self.outputs.add(name="const", static=True, time=None, grid=fm.UniformGrid(GRID["dims"], data_location="POINTS"), units="m")
        self.create_connector()

    def _connect(self, st):
        self.try_connect(st, push_data={"const": np.arange(NVAL, dtype=float).reshape(3, 4) + 100.0})

    def _validate(self):
        pass

    def _update(self):
        pass

    def _finalize(self):
        pass


class Cons(fm.TimeComponent):
    def __init__(self, step, mask):
        super().__init__()
        self._name, self._stp = "C", step
        self._time = T0
        self.got = []
        self.mask = mask
        self.with_static = False

    def _next_time(self):
        return self.time + H(self._stp)

    def _initialize(self):
        self.inputs.add(name="in", time=self.time, grid=fm.UniformGrid(GRID["dims"], data_location="POINTS"), units=None, mask=self.mask)
        if self.with_static:
            self.inputs.add(name="const", static=True, time=None, grid=fm.UniformGrid(GRID["dims"], data_location="POINTS"), units=None)
        self.create_connector(pull_data=["in"] + (["const"] if self.with_static else []))

    def _connect(self, st):
        self.try_connect(st)
        if self.status == fm.ComponentStatus.CONNECTED:
            self.record("init", self.connector.in_data["in"])

    def record(self, t, d):
        mag = d.magnitude
        self.got.append((t, np.array(np.ma.getdata(mag), dtype=float), np.array(np.ma.getmaskarray(mag)), str(d.units), bool(np.ma.isMaskedArray(mag))))

    def _validate(self):
        pass

    def _update(self):
        self._time = self._next_time()
        self.record(hrs(self.time), self.inputs["in"].pull_data(self.time))
        if self.with_static:
            self.record(("const", hrs(self.time)), self.inputs["const"].pull_data(self.time))

    def _finalize(self):
        pass


def run_once(spec, limit, tag):
    # the configured location is a directory name like any other: blanks and characters that mean something to
    # glob patterns or shells must not matter
    loc = os.path.abspath({None: "spill-{t}", 1: "spill[{t}]", 2: "sp ill-{t}*", 3: "sp?ll-{t}"}[spec.get("loc_name")].format(t=tag))
    os.makedirs(loc, exist_ok=True)
    other = None
    if spec.get("shared_location") and limit is not None:
        # an ensemble member sharing the location: constructed first, run and finalized before this composition runs
        op, oc = Prod(1, "plain", spec["units"], None), Cons(1, fm.Mask.FLEX)
        other = fm.Composition([op, oc], print_log=False, log_level=logging.CRITICAL + 10, slot_memory_location=loc, slot_memory_limit=limit)
        op.outputs["out"] >> oc.inputs["in"]
    prod = Prod(spec["pstep"], spec["payload"], spec["units"], None)
    cmask = MASK if spec["payload"] == "masked_fixed" else fm.Mask.FLEX
    cons = Cons(spec["cstep"], cmask)
    prod.reuse_state = bool(spec.get("reuse_state"))
    cons.with_static = bool(spec.get("static_slot"))
    sprod = StaticProd() if spec.get("static_slot") else None
    kw = dict(slot_memory_location=loc)
    per_slot = spec.get("per_slot_limit") and limit is not None
    if not per_slot:
        kw["slot_memory_limit"] = limit
    comps = ([prod, cons] if spec["order"] == 0 else [cons, prod]) + ([sprod] if sprod else [])
    comp = fm.Composition(comps, print_log=False, log_level=logging.CRITICAL + 10, **kw)
    if sprod:
        sprod.outputs["const"] >> cons.inputs["const"]
    x = prod.outputs["out"]
    adas = []
    for s in spec["slots"]:
        if SLOTS[s] is not None:
            a = SLOTS[s]()
            adas.append(a)
            x = x >> a
    x >> cons.inputs["in"]
    if per_slot:
        # the user sets the limit on individual slots; the location still comes from the composition
        for a in adas:
            a.memory_limit = limit
        prod.outputs["out"].memory_limit = limit
        if sprod:
            sprod.outputs["const"].memory_limit = limit
    before_cwd = set(os.listdir("."))
    LEDGER["created"], LEDGER["removed"] = [], []
    LEDGER["on"] = True
    err = None
    mid_listing = []
    try:
        if other is not None:
            other.run(start_time=T0, end_time=T0 + H(3))
        comp.connect(T0)
        mid_listing = os.listdir(loc) if os.path.isdir(loc) else []
        comp.run(end_time=T0 + H(spec["end"]))
    except Exception as e:  # pylint: disable=broad-except
        err = f"{type(e).__name__}: {e}"
    finally:
        LEDGER["on"] = False
    created, removed = list(LEDGER["created"]), list(LEDGER["removed"])
    left = sorted(os.listdir(loc)) if os.path.isdir(loc) else []  # (an implementation may remove its empty spill directory)
    new_cwd = sorted(set(os.listdir(".")) - before_cwd - {os.path.basename(loc)})
    # clean up whatever is left so later cases start clean
    for f in left:
        try:
            os.remove(os.path.join(loc, f))
        except OSError:
            pass
    for f in new_cwd:
        try:
            if os.path.isfile(f):
                os.remove(f)
        except OSError:
            pass
    return dict(err=err, retries=prod.retries, got=cons.got, created=created, removed=removed, left=left, loc=loc, new_cwd=new_cwd, mid=mid_listing)


class C10(Property):
    id = "C10"
    anchors = ('finam.sdk.output:Output._pack', 'finam.sdk.output:Output._unpack', 'finam.adapters.time:TimeCachingAdapter._clear_cached_data', 'finam.adapters.time:TimeCachingAdapter._finalize', 'finam.sdk.output:Output.finalize')
    technique = "differential monitor (memory limit vs none) on real compositions + sys.addaudithook file ledger (created/removed paths) independent of directory listings"
    rule = (
        "per case one or two buffering slots from {plain output, next, previous, linear, step(0|.5), avg (linear|step), sum (per-time|absolute) x "
        "(step|linear)} x payload {plain, fixed mask, time-varying mask incl. all-unmasked publications, quantity with units} x limit {0, every "
        "prefix boundary k*nbytes and k*nbytes+-1 for k=1..4, huge} set on the composition or on individual slots x producer/consumer step "
        "ratios x run lengths. non-trivial = >=1 spill and >=1 read-back observed in the ledger and the limited run compared with the unlimited "
        "one; distinct by full parameter tuple"
    )
    assumptions = (
        "I/O faults while spilling are not injected",
        "the audit hook sees every file opened for writing by Python code in this process (np.save / pickle dump use open())",
    )
    cases = {"quick": 2400, "thorough": 150000}
    min_nontrivial = {"quick": 800, "thorough": 40000}

    def gen(self, rnd, i, tier):
        kinds = list(SLOTS)
        first = kinds[i % len(kinds)]
        slots = [first] if first != "output" else ["output"]
        if first != "output" and rnd.random() < 0.15:
            slots = [rnd.choice(["next", "prev", "linear"]), first] if first.startswith(("avg", "sum")) else slots
        payload = rnd.choice(["plain", "masked_fixed", "masked_varying", "units"])
        units = rnd.choice(["mm/d", "m", "kg m-2 s-1"]) if (payload == "units" or first.startswith("sum")) else "m"
        k = rnd.randint(1, 4)
        limit = rnd.choice([0, 0, k * NBYTES - 1, k * NBYTES, k * NBYTES + 1, 10**9])
        pstep, cstep = rnd.choice([(1, 1), (1, 1), (2, 2), (1, 3), (2, 3), (1, 5), (3, 1), (3, 2), (5, 2), (2, 7)])
        return dict(slots=slots, payload=payload, units=units, limit=limit, pstep=pstep, cstep=cstep, end=rnd.choice([6, 12, 20, 35]),
                    order=rnd.randrange(2), per_slot_limit=rnd.random() < 0.2,
                    # a producer publishing its in-place updated state array (refused, then a copy is published): only where the
                    # consumer never reads an older entry again (equal steps, exact-time slots), else the reuse itself corrupts history
                    reuse_state=(payload == "plain" and pstep == cstep and slots[0] in ("output", "next", "prev", "linear", "step0", "step5") and len(slots) == 1),
                    static_slot=rnd.random() < 0.15, loc_name=rnd.choice([None, None, None, 1, 2, 3]), shared_location=rnd.random() < 0.1)

    def run(self, spec):
        install_hook()
        out = Outcome()
        out.sample = spec
        ref = run_once(spec, None, "ref")
        lim = run_once(spec, spec["limit"], "lim")
        out.count("pairs_run")
        for s in spec["slots"]:
            out.count("slot_" + s)
        tag = f"slots {spec['slots']}, payload {spec['payload']}, limit {spec['limit']} B (entry {NBYTES} B), steps {spec['pstep']}/{spec['cstep']}h, per_slot={spec['per_slot_limit']}"
        if ref["err"]:
            out.notes.append("reference run (no limit) failed: " + ref["err"][:100])
            out.count("reference_failed")
            return out
        if ref["created"]:
            out.viol("files_without_limit", f"files created without a memory limit: {ref['created'][:2]}", spec=spec)
        if lim["err"]:
            out.viol("fails_only_with_limit", f"run with limit failed although the unlimited run works: {lim['err'][:300]}; {tag}", spec=spec)
            return out
        # identical data
        if len(ref["got"]) != len(lim["got"]):
            out.viol("different_series_length", f"{len(lim['got'])} vs {len(ref['got'])} received items; {tag}", spec=spec)
            return out
        for a, b in zip(ref["got"], lim["got"]):
            same = a[0] == b[0] and a[3] == b[3] and a[4] == b[4] and np.array_equal(a[2], b[2]) and np.array_equal(a[1][~a[2]], b[1][~b[2]])
            if not same:
                out.viol("data_differs_with_limit", f"received at {a[0]}h: without limit {a[1].ravel()[:3].tolist()} {a[3]} masked={a[4]}, with limit {b[1].ravel()[:3].tolist()} {b[3]} masked={b[4]}; {tag}", spec=spec)
                return out
        out.count("received_items_compared", len(ref["got"]))
        # ledger
        spilled = [p for p in lim["created"] if p.endswith(".npy")]
        outside = [p for p in lim["created"] if not p.startswith(lim["loc"] + os.sep)]
        if outside:
            out.viol("file_outside_location", f"files created outside the configured location {lim['loc']}: {outside[:2]}; {tag}", spec=spec)
        if lim["new_cwd"]:
            out.viol("file_outside_location", f"new entries in the working directory: {lim['new_cwd'][:3]}; {tag}", spec=spec)
        remaining = sorted(set(lim["created"]) - set(lim["removed"]))
        if remaining or lim["left"]:
            out.viol("files_left_behind", f"after run() returned: ledger created-removed = {[os.path.basename(p) for p in remaining][:3]}, directory listing = {lim['left'][:3]}; {tag}", spec=spec)
        if spilled:
            out.count("cases_with_spill")
            out.count("spill_files_created", len(spilled))
            out.count("spill_files_removed", len([p for p in lim["removed"] if p.endswith(".npy")]))
            for s in spec["slots"]:
                out.count("spill_in_" + s)
            out.key = repr(sorted((k, repr(v)) for k, v in spec.items()))
        if lim.get("retries") and spilled:
            out.count("refused_then_retried_publications_with_spill")  # informational: whether a re-used buffer is refused depends on where the previous entry lives
        if spec.get("reuse_state") and spilled:
            out.count("state_reusing_producers_with_spill")
        if spec.get("static_slot") and spilled and spec["limit"] < NBYTES:
            out.count("static_slot_spills")
        if spec["per_slot_limit"] and spilled:
            out.count("per_slot_limit_spills")
        if spec.get("loc_name") and spilled:
            out.count("spills_below_locations_with_special_characters")
        if spec.get("shared_location") and spilled:
            out.count("spills_into_a_location_shared_with_a_finished_composition")
        if spec["payload"].startswith("masked") and spilled:
            out.count("masked_spills")
        return out

    def coverage_gaps(self, counters, tier):
        need = ["pairs_run", "cases_with_spill", "received_items_compared", "per_slot_limit_spills", "masked_spills",
                "state_reusing_producers_with_spill", "static_slot_spills", "spills_below_locations_with_special_characters",
                "spills_into_a_location_shared_with_a_finished_composition"] + ["spill_in_" + s for s in SLOTS]
        gaps = [f"{k} never observed" for k in need if not counters.get(k)]
        if counters.get("reference_failed", 0) > 0.02 * max(1, counters.get("pairs_run", 0)):
            gaps.append(f"{counters.get('reference_failed')} reference runs failed")
        return gaps


PROP = C10()
