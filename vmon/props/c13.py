"""C13 - delay adapters deliver exactly the source's data for the shifted time.

Slot level: a real Output >> (1-3 delay adapters mixed with pass-through adapters) >> Input chain.
The `time` argument reaching the source output is observed by wrapping the source's public
get_data; the oracle composes independent models of the three adapters (model_slots) in pull
order. Composition level ("the shifted time is what the driver assumes"): see C02, which runs
the same chains under the real scheduler and checks driver-assumed vs requested times.
"""
from fractions import Fraction as F

import numpy as np

import finam as fm
from finam.adapters import DelayFixed, DelayToPull, DelayToPush, Scale

from .. import slots
from ..model_slots import DelayFixedModel, DelayToPullModel, DelayToPushModel, History
from ..runner import Outcome, Property


def build(chain, start):
    """chain is listed from the SOURCE side to the consumer side"""
    ads, models = [], []
    for c in chain:
        if c[0] == "fix":
            ads.append(DelayFixed(slots.timedelta(seconds=c[1])))
            models.append(DelayFixedModel(c[1], start))
        elif c[0] == "pull":
            ads.append(DelayToPull(steps=c[1], additional_delay=slots.timedelta(seconds=c[2])))
            models.append(DelayToPullModel(c[1], c[2], start))
        elif c[0] == "push":
            ads.append(DelayToPush())
            models.append(DelayToPushModel(start))
        elif c[0] == "scale":
            ads.append(Scale(1.0))
            models.append(None)
        else:
            ads.append(fm.adapters.CallbackProbe(lambda d, t: None))
            models.append(None)
    return ads, models


class C13(Property):
    id = "C13"
    anchors = ('finam.adapters.time:DelayFixed.with_delay', 'finam.adapters.time:DelayToPull.with_delay', 'finam.adapters.time:DelayToPush.with_delay', 'finam.sdk.adapter:TimeDelayAdapter.get_data', 'finam.schedule:_find_dependencies')
    technique = "reference-model monitor: compositional delay model vs the time observed at the source's public get_data and the unique id of the delivered publication"
    rule = (
        "chains of 1-3 delay adapters (fixed d in {0,<step,>step,non-multiples}; to-pull n in 1..4 with extra delay; to-push) mixed with "
        "pass-through adapters, start offsets (link start later than the first publication), non-decreasing request sequences including "
        "requests beyond the newest publication and before the link start; non-trivial = >=2 delay adapters or to-pull n>=2, and >=3 served "
        "pulls with a non-zero shift; distinct by (chain, start, event pattern)"
    )
    assumptions = (
        "for requests earlier than the link's start time the delivered publication (not the literal time argument) is compared: the source "
        "delivers its initial publication for max(t-d, start) and for t < start alike (F14)",
    )
    cases = {"quick": 10000, "thorough": 600000}
    min_nontrivial = {"quick": 3000, "thorough": 150000}

    def gen(self, rnd, i, tier):
        if i % 25 == 24:
            # composition level: chains of delay adapters under the real scheduler (C02's workload)
            from .c02 import PROP as C02

            spec = C02.gen(rnd, i, tier)
            spec["kind"] = "composition"
            return spec
        n = rnd.randint(1, 3)
        chain = []
        for _ in range(n):
            k = rnd.random()
            if k < 0.45:
                chain.append(["fix", rnd.choice([0, 1, 2, 3, 5, 7, 10, 13])])
            elif k < 0.8:
                chain.append(["pull", rnd.randint(1, 4), rnd.choice([0, 0, 1, 3, 6])])
            else:
                chain.append(["push"])
            if rnd.random() < 0.3:
                chain.append([rnd.choice(["scale", "probe"])])
        if rnd.random() < 0.2:
            chain.insert(0, ["scale"])
        start = rnd.choice([0, 0, 0, 4, 9])
        step = rnd.choice([1, 2, 3, 5])
        events = []
        t = 0
        last = 0
        if start:
            events.append(["push", 0, "init"])
            events.append(["push", start, "init"])
            t = start
        else:
            events.append(["push", 0, "init"])
        for _ in range(rnd.randint(8, 50)):
            if rnd.random() < 0.45:
                t += rnd.choice([step, step, 1, 2 * step])
                events.append(["push", t, "new"])
            else:
                hi = t + rnd.choice([0, 0, 0, 2, 5, 11])
                r = rnd.randint(last, max(last, hi))
                last = r
                events.append(["pull", r])
        # the consumer may declare a later start time than the source: the link's start time is the source's
        return dict(chain=chain, start=start, events=events, cons_offset=rnd.choice([0, 0, 0, 3, 8]),
                    sink="push" if (rnd.random() < 0.2 and not any(c[0] == "pull" for c in chain)) else "pull")

    def _composition(self, spec):
        from .. import sched_run

        out = Outcome()
        out.sample = spec
        rep = sched_run.run_spec(spec)
        out.count("compositions")
        out.count("driver_requests_compared", rep.requests_compared)
        for m in rep.request_mismatch:
            out.viol("driver_assumes_other_time", f"during update of {m['comp']}: {m['output']} was asked for {m['requested']}h, composed delays give {m['model_needs']}", spec=spec)
        for u in rep.unjustified:
            out.viol("driver_assumes_later_time", f"{u['comp']} advanced although no dependant needs it at the shifted time: {u['reason']}", spec=spec)
        for lk in rep.lacking_at_update:
            out.viol("driver_assumes_earlier_time", f"{lk['comp']} updated while the shifted time is not yet published: {lk['lacking']}", spec=spec)
        if rep.outcome != "ok" and not out.violations:
            if rep.outcome == "FinamCircularCouplingError" and spec["meta"].get("cyclic"):
                out.viol("delays_do_not_add_up", f"cycle with sufficient combined delay reported circular: {rep.message[:150]}", spec=spec)
            else:
                out.notes.append(f"composition run aborted: {rep.outcome}")
        multi = sum(1 for ln in spec["links"] if sum(1 for a in ln["chain"] if a[0] in ("dfix", "dpull")) >= 2)
        if multi and rep.requests_compared:
            out.count("compositions_with_multi_delay_links")
            out.key = "comp:" + repr([(ln["src"], ln["dst"], ln["chain"]) for ln in spec["links"]])[:400]
        return out

    def run(self, spec):
        if spec.get("kind") == "composition":
            return self._composition(spec)
        out = Outcome()
        out.sample = spec
        start = spec["start"]
        info = fm.Info(time=slots.t(start), grid=fm.NoGrid(), units="")
        o = fm.Output(name="src", info=info)
        seen = []
        orig = o.get_data

        def spy(time, target):
            seen.append(slots.sec(time))
            return orig(time, target)

        o.get_data = spy  # public entry point of the source, wrapped on this instance
        ads, models = build(spec["chain"], start)
        notified = []
        if spec.get("sink") == "push":
            # push-type consumer: pulls the notified time inside its notification callback
            inp = fm.CallbackInput(lambda caller, time: notified.append((slots.sec(time), caller.pull_data(time))), name="in",
                                   info=info.copy_with(time=slots.t(start + spec.get("cons_offset", 0))))
        else:
            inp = fm.Input(name="in", info=info.copy_with(time=slots.t(start + spec.get("cons_offset", 0))))
        if spec.get("cons_offset"):
            out.count("consumer_declares_later_start")
        slots.wire(o, ads, [inp])
        inp.exchange_info()
        hist = History()
        ids = {}
        next_id = 1
        served_shifted = 0
        ndelay = sum(1 for c in spec["chain"] if c[0] in ("fix", "pull", "push"))
        deep_pull = any(c[0] == "pull" and c[1] >= 2 for c in spec["chain"])
        for ev in spec["events"]:
            if ev[0] == "push":
                t = ev[1]
                if ev[2] == "init":
                    val = 1000.0
                else:
                    next_id += 1
                    val = 1000.0 + next_id
                notified.clear()
                hist.push(t, F(val))
                ids[t] = val
                for m in models:
                    if isinstance(m, DelayToPushModel):
                        m.pushed(t)
                try:
                    o.push_data(val, slots.t(t))
                except (fm.FinamTimeError, fm.FinamNoDataError) as e:
                    if spec.get("sink") == "push":
                        # the model says which time reaches the source; refusal is judged below only if it was servable
                        cur = t
                        for m in reversed(models):
                            if m is not None:
                                cur = m.request(cur)
                        if hist.in_range(cur) and t >= start:
                            out.viol("pull_in_notification_refused", f"pull for the notified time {t}s inside the notification failed although the shifted time {cur}s is published: {e}", spec=spec)
                            return out
                        out.count("publications")
                        continue
                    raise
                out.count("publications")
                if spec.get("sink") == "push" and notified:
                    cur = t
                    for m in reversed(models):
                        if m is not None:
                            cur = m.request(cur)
                    got_val = float(np.asarray(notified[-1][1].magnitude).ravel()[0])
                    if t < start:
                        cur = min(cur, t)  # before the link start the delivered data is compared (see assumptions)
                    acc = {float(hist.v[i]) for i in hist.nearest(cur)}
                    out.count("pulls_in_notification")
                    if got_val not in acc:
                        out.viol("delivered_data_in_notification", f"pull at the just notified time {t}s through {spec['chain']} delivered id {got_val}; the source's data for the shifted time {cur}s is {sorted(acc)}", spec=spec)
                        return out
                continue
            if spec.get("sink") == "push":
                continue
            r = ev[1]
            # model walk: consumer side -> source side (reverse of the listed chain)
            cur = r
            walk = []
            for m in reversed(models):
                if m is None:
                    continue
                walk.append((m, cur))
                cur = m.request(cur)
            before_start = r < start
            expect_ok = hist.in_range(cur) or (before_start and hist.in_range(min(cur, r)))
            seen.clear()
            try:
                got = inp.pull_data(slots.t(r))
                ok = True
            except fm.FinamTimeError:
                ok = False
            out.count("pulls")
            if ok != expect_ok:
                out.viol("served_mismatch", f"request {r}s through {spec['chain']} (start {start}s): model source time {cur}s, source range [{hist.oldest},{hist.newest}] -> expected {'served' if expect_ok else 'refused'}, got {'served' if ok else 'refused'}; source saw {seen}", spec=spec, r=r)
                return out
            if not ok:
                out.count("refused_out_of_range")
                continue
            for m, received in walk:
                m.served(received)
            if len(seen) != 1:
                out.viol("source_calls", f"source asked {len(seen)} times for one pull", spec=spec)
                return out
            val = float(np.asarray(got.magnitude).ravel()[0])
            acc = {float(hist.v[i]) for i in hist.nearest(cur)}
            if val not in acc:
                out.viol("delivered_data", f"request {r}s through {spec['chain']} (start {start}s) delivered id {val}; the source's data for the shifted time {cur}s is {sorted(acc)}; time reaching the source was {seen[0]}s", spec=spec, r=r)
                return out
            if not before_start:
                if seen[0] != cur:
                    out.viol("shifted_time", f"request {r}s through {spec['chain']} (start {start}s): time reaching the source {seen[0]}s, compositional model {cur}s", spec=spec, r=r)
                    return out
                out.count("time_at_source_compared")
            else:
                # statement read on the delivered data: literal max(t-d, start) and the never-forward
                # variant both deliver the initial publication here; the time argument is not judged
                out.count("pulls_before_start_data_compared")
            if cur != r:
                served_shifted += 1
        out.count("served_shifted", served_shifted)
        out.count("chains_with_%d_delays" % ndelay)
        if (ndelay >= 2 or deep_pull) and served_shifted >= 3:
            pat = "".join("P" if e[0] == "push" else "q" for e in spec["events"])
            out.key = repr((spec["chain"], start, pat, [e[1] for e in spec["events"][:8]]))
        return out

    def coverage_gaps(self, counters, tier):
        need = ["pulls", "time_at_source_compared", "pulls_before_start_data_compared", "served_shifted", "refused_out_of_range",
                "chains_with_1_delays", "chains_with_2_delays", "chains_with_3_delays",
                "driver_requests_compared", "compositions_with_multi_delay_links", "consumer_declares_later_start", "pulls_in_notification"]
        return [f"{k} never observed" for k in need if not counters.get(k)]


PROP = C13()
