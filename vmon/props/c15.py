"""C15 - canonical form and conversion between compatible grids preserve located values.

Oracle: located-value encoding. Every payload value is an injective function of the physical
coordinate of its element (from model_grid's closed-form coordinates); after any conversion each
element must decode to the coordinate of the index it now sits at in the *target* layout.
"""
import itertools

import numpy as np

import finam as fm

from .. import model_grid as mg
from .. import slots
from ..runner import Outcome, Property

GEOMS = {1: [[3], [4]], 2: [[3, 4], [3, 3], [2, 4]], 3: [[3, 4, 2], [3, 3, 3], [2, 3, 4]]}


def _specs_for(dims, cls, location):
    dim = len(dims)
    if cls == "esri":
        return [dict(cls="esri", dims=list(dims), order=o, location="CELLS", reversed=True, increase=[True, False]) for o in "FC"]
    return [dict(cls=cls, dims=list(dims), location=location, **lay) for lay in mg.layouts(dim)]


def _all_pairs():
    pairs = []
    for dim, geoms in GEOMS.items():
        for dims in geoms:
            for loc in ("CELLS", "POINTS"):
                for ca, cb in (("uniform", "uniform"), ("uniform", "rect_u"), ("rect", "rect")):
                    A = _specs_for(dims, ca.replace("_u", ""), loc)
                    B = _specs_for(dims, "rect" if cb == "rect" else "uniform", loc)
                    if (ca, cb) == ("uniform", "rect_u"):
                        # rectilinear grid built from the uniform axes: same geometry, other class
                        B = [dict(s, cls="rect", uniform_axes=True) for s in _specs_for(dims, "uniform", loc)]
                    for a in A:
                        for b in B:
                            pairs.append((a, b))
    # symmetric geometries: identical coordinate axes in every direction (square / cubic, same
    # origin and spacing), where only the layout flags distinguish the grids
    for dims in ([3, 3], [4, 4], [3, 3, 3]):
        for loc in ("CELLS", "POINTS"):
            A = [dict(s, spacing=(1.0, 1.0, 1.0), origin=(0.0, 0.0, 0.0)) for s in _specs_for(dims, "uniform", loc)]
            for a in A:
                for b in A:
                    pairs.append((a, b))
    # ESRI against its uniform twin (all layouts) and itself
    for dims in ([3, 4], [4, 4], [2, 3]):
        E = _specs_for(dims, "esri", "CELLS")
        Utw = [dict(s, spacing=(1.5, 1.5), origin=(3.0, -2.0)) for s in _specs_for(dims, "uniform", "CELLS")]
        for a in E:
            for b in E + Utw:
                pairs.append((a, b))
                pairs.append((b, a))
    return pairs


PAIRS = _all_pairs()


def _base_axes(spec):
    if spec.get("uniform_axes"):
        return mg.base_axes(dict(spec, cls="uniform"))
    return mg.base_axes(spec)


def _make(spec):
    if spec.get("via_location_change") and spec["cls"] != "esri":
        # built with the other data location, shape/size read, then switched: must behave like a fresh grid
        other = "POINTS" if spec["location"] == "CELLS" else "CELLS"
        g = _make(dict(spec, location=other, via_location_change=False))
        _ = (g.data_shape, g.data_size)
        g.data_location = spec["location"]
        return g
    if spec.get("via_to_rectilinear") and spec["cls"] in ("uniform", "esri"):
        # history: the rectilinear cast of a uniform / ESRI grid describes the same locations in the same layout
        return mg.make_grid(spec).to_rectilinear()
    if spec.get("uniform_axes"):
        axes = [ax if inc else ax[::-1] for ax, inc in zip(_base_axes(spec), spec["increase"])]
        return fm.RectilinearGrid([np.array(a, dtype=float) for a in axes], order=spec["order"], axes_reversed=spec["reversed"], data_location=spec["location"])
    return mg.make_grid(spec)


def _located(spec):
    if spec.get("uniform_axes"):
        return mg.located(dict(spec, cls="uniform"))
    return mg.located(spec)


def _perturb(rnd, spec):
    """a geometry that does NOT describe the same data locations"""
    s = dict(spec)
    how = rnd.choice(["shift", "scale", "dims", "location", "dimension", "interior", "interior", "crs"])
    if how == "crs":
        # same numbers, another (or no) coordinate reference system: other locations on the globe
        s["crs"] = {None: "EPSG:32632", "EPSG:32632": rnd.choice([None, "EPSG:25832"])}.get(s.get("crs"), None)
        if s["crs"] is None:
            s.pop("crs")
        return s, how
    if how == "interior" and (s["cls"] == "esri" or max(s["dims"]) < 3):
        how = "shift"
    if how == "interior":
        # same number of nodes and the same first and last coordinate on every axis, one inner node moved
        axes = [np.array(a, dtype=float) for a in mg.base_axes(s)]
        k = rnd.choice([i for i, n in enumerate(s["dims"]) if n >= 3])
        j = rnd.randrange(1, s["dims"][k] - 1)
        axes[k][j] += 0.25 * (axes[k][j + 1] - axes[k][j])
        s.update(cls="rect", explicit_axes=[a.tolist() for a in axes])
        s.pop("uniform_axes", None)
        return s, how
    if s["cls"] == "esri":
        how = rnd.choice(["shift", "scale", "dims"])
        if how == "shift":
            s["xll"] = s.get("xll", 3.0) + 0.5
        elif how == "scale":
            s["cellsize"] = s.get("cellsize", 1.5) * 2
        else:
            s["dims"] = [s["dims"][0] + 1, s["dims"][1]]
        return s, how
    if how == "shift":
        og = list(s.get("origin", mg.ORIGIN))
        og[rnd.randrange(len(s["dims"]))] += 0.25
        s["origin"] = tuple(og)
        if s["cls"] == "rect":
            s["variant"] = s.get("variant", 0) + 1
    elif how == "scale":
        sp = list(s.get("spacing", mg.SPACING))
        sp[rnd.randrange(len(s["dims"]))] *= 1.5
        s["spacing"] = tuple(sp)
        if s["cls"] == "rect":
            s["variant"] = s.get("variant", 0) + 2
    elif how == "dims":
        d = list(s["dims"])
        d[rnd.randrange(len(d))] += 1
        s["dims"] = d
    elif how == "location":
        s["location"] = "POINTS" if s["location"] == "CELLS" else "CELLS"
    else:
        if len(s["dims"]) == 3:
            s["dims"] = s["dims"][:2]
            s["increase"] = s["increase"][:2]
        else:
            s["dims"] = s["dims"] + [3]
            s["increase"] = s["increase"] + [True]
    for key, dflt in (("spacing", mg.SPACING), ("origin", mg.ORIGIN)):
        if key in s and len(s[key]) < len(s["dims"]):
            s[key] = tuple(s[key]) + tuple(dflt[len(s[key]):len(s["dims"])])
    s.pop("uniform_axes", None)
    return s, how


class C15(Property):
    id = "C15"
    anchors = ('finam.data.grid_base:StructuredGrid.to_canonical', 'finam.data.grid_base:StructuredGrid.from_canonical', 'finam.data.grid_base:StructuredGrid.get_transform_to', 'finam.data.grid_base:StructuredGrid.compatible_with', 'finam.sdk.input:Input._convert_and_check')
    technique = "located-value encoding oracle over all ordered layout pairs: helper level (canonical round trip, transform with/without time axis, compatible_with) and real Output>>Input links, masked and unmasked"
    rule = (
        "ordered pairs of layouts (order x axes_reversed x per-axis direction) of one geometry in 1-3 D, cell and point data, "
        "uniform/rectilinear/ESRI incl. cross-class twins (%d pairs; thorough: all, quick: seeded sample), each checked at helper level and "
        "over a link with time axis, plain and masked; plus perturbed geometries for the 'only if' side of compatible_with. "
        "non-trivial = layouts differ or geometry perturbed; distinct by (pair, mode)" % len(PAIRS)
    )
    assumptions = ("coordinates of distinct elements differ by >= 0.25 so the encoding is injective", "crs is None on both sides")
    cases = {"quick": 8000, "thorough": 2 * len(PAIRS) + 20000}
    min_nontrivial = {"quick": 5000, "thorough": 50000}
    exhaustive = {"quick": False, "thorough": True}

    def gen(self, rnd, i, tier):
        npairs = 2000 if tier == "quick" else 2 * len(PAIRS)
        if i < npairs:
            # thorough: every ordered pair twice, once with a plain and once with a masked payload
            a, b = PAIRS[i // 2] if tier == "thorough" else rnd.choice(PAIRS)
            masked = bool(i % 2) if tier == "thorough" else rnd.random() < 0.5
            if rnd.random() < 0.15:
                a = dict(a, via_location_change=True)
            if rnd.random() < 0.15:
                b = dict(b, via_location_change=True)
            if rnd.random() < 0.12:
                a = dict(a, via_to_rectilinear=True)
            if rnd.random() < 0.12:
                b = dict(b, via_to_rectilinear=True)
            if rnd.random() < 0.1 and not a.get("uniform_axes") and not b.get("uniform_axes"):
                a, b = dict(a, crs="EPSG:32632"), dict(b, crs="EPSG:32632")  # the same reference system on both sides
            return dict(kind="same", a=a, b=b, masked=masked, mseed=rnd.randrange(1 << 30))
        a, _ = rnd.choice(PAIRS)
        if rnd.random() < 0.1 and not a.get("uniform_axes"):
            a = dict(a, crs="EPSG:32632")
        b, how = _perturb(rnd, a)
        lay = rnd.choice(list(mg.layouts(len(b["dims"]))))
        if b["cls"] != "esri":
            b = dict(b, **lay)
        return dict(kind="diff", a=a, b=b, how=how)

    def run(self, spec):
        out = Outcome()
        a, b = spec["a"], spec["b"]
        ga, gb = _make(a), _make(b)
        out.sample = spec
        if spec["kind"] == "diff":
            out.count("incompatible_pairs")
            for x, y, tag in ((ga, gb, "a,b"), (gb, ga, "b,a")):
                if x.compatible_with(y):
                    out.viol("compatible_false_positive", f"compatible_with({tag}) is True although geometry differs by {spec['how']}", a=a, b=b)
                if x == y:
                    out.viol("eq_false_positive", f"grids compare equal although geometry differs by {spec['how']}", a=a, b=b)
            try:
                ga.get_transform_to(gb)
                out.viol("transform_for_incompatible", "get_transform_to returned for incompatible grids", a=a, b=b)
            except ValueError:
                pass
            # a link between them must be refused at metadata exchange
            try:
                slots.simple_link(fm.Info(time=slots.T0, grid=ga, units=""), fm.Info(time=slots.T0, grid=gb, units=""))
                out.viol("link_accepts_incompatible", f"link accepted grids differing by {spec['how']}", a=a, b=b)
            except fm.FinamMetaDataError:
                out.count("incompatible_links_refused")
            out.key = "diff:" + repr((sorted(a.items()), sorted(b.items())))
            return out

        same_layout = all(a[k] == b[k] for k in ("order", "reversed")) and list(mg.norm_spec(a)["increase"]) == list(mg.norm_spec(b)["increase"])
        same_layout_data = (mg.norm_spec(a)["reversed"] == mg.norm_spec(b)["reversed"]) and all(
            (x == y) or n == 1 for x, y, n in zip(mg.norm_spec(a)["increase"], mg.norm_spec(b)["increase"], mg.data_shape(dict(mg.norm_spec(a), reversed=False)))
        )
        la, lb = _located(a), _located(b)
        out.count("compatible_pairs")
        if a.get("via_location_change") or b.get("via_location_change"):
            out.count("grids_with_changed_data_location")
        if any(x.get("via_to_rectilinear") and x["cls"] in ("uniform", "esri") for x in (a, b)):
            out.count("grids_made_by_to_rectilinear")
        # compatible_with / equality
        if not ga.compatible_with(gb) or not gb.compatible_with(ga):
            out.viol("compatible_false_negative", "grids with identical data locations reported incompatible", a=a, b=b)
            return out
        # canonical form: x,y,z order along increasing coordinates; round trip identity
        ca = ga.to_canonical(la)
        na = mg.norm_spec(a)
        can_spec = dict(na, reversed=False, increase=[True] * len(na["dims"]))
        if na["cls"] == "esri":  # canonical twin of an ESRI raster: uniform grid with the same axes
            cs = na.get("cellsize", 1.5)
            can_spec.update(cls="uniform", spacing=(cs, cs), origin=(na.get("xll", 3.0), na.get("yll", -2.0)))
        exp_can = _located(can_spec) if not a.get("uniform_axes") else mg.located(dict(can_spec, cls="uniform"))
        if np.shape(ca) != np.shape(exp_can) or not np.array_equal(ca, exp_can):
            out.viol("canonical_location", "to_canonical: element (ix,iy,iz) is not the value located at (x[ix],y[iy],z[iz])", a=a)
            return out
        back = ga.from_canonical(ca)
        if np.shape(back) != np.shape(la) or not np.array_equal(back, la):
            out.viol("canonical_roundtrip", "from_canonical(to_canonical(x)) != x", a=a)
            return out
        out.count("canonical_roundtrips")
        # transform (no time axis, helper level)
        tr = ga.get_transform_to(gb)
        if tr is None:
            if not np.array_equal(la, lb):
                out.viol("transform_skipped", "get_transform_to returned None (treated as equal) but layouts place values differently", a=a, b=b)
                return out
            out.count("transform_none_equal_layout")
        else:
            got = tr(la)
            if np.shape(got) != np.shape(lb) or not np.array_equal(got, lb):
                out.viol("transform_no_time", "transform (no time axis) misplaces values", a=a, b=b)
                return out
            out.count("transforms_no_time")
        # real link with time axis
        rng = np.random.default_rng(spec["mseed"])
        masked = spec["masked"] and la.size > 1
        if masked:
            ma = rng.random(la.shape) < 0.35
            # the mask is itself located: mask bit = f(coordinate)
            payload = np.ma.array(la.copy(), mask=ma)
            info_a = fm.Info(time=slots.T0, grid=ga, units="m", mask=fm.Mask.FLEX)
        else:
            payload = la.copy()
            info_a = fm.Info(time=slots.T0, grid=ga, units="m")
        info_b = fm.Info(time=slots.T0, grid=gb, units="m")
        static = spec["mseed"] % 5 == 0
        if static:
            info_a.time = info_b.time = None
        o, (i,) = slots.simple_link(info_a, info_b, static=static)
        o.push_data(payload, None if static else slots.T0)
        got = i.pull_data(slots.T0)
        if static:
            # a static input serves its cached value: every later pull must be the same located data
            for k in range(2):
                again = i.pull_data(slots.t(3600 * (k + 1)))
                if np.shape(again.magnitude) != np.shape(got.magnitude) or not np.array_equal(np.ma.getdata(again.magnitude), np.ma.getdata(got.magnitude)):
                    out.viol("static_link_repeated_pull", f"pull #{k + 2} on a static re-layout link differs from the first pull", a=a, b=b)
                    return out
            out.count("static_link_pulls")
        out.count("link_pulls")
        mag = got.magnitude
        if mag.shape != (1,) + tuple(lb.shape):
            out.viol("link_shape", f"delivered shape {mag.shape}, expected {(1,) + tuple(lb.shape)}", a=a, b=b)
            return out
        if not np.array_equal(np.ma.getdata(mag)[0], lb):
            bad = np.argwhere(np.ma.getdata(mag)[0] != lb)[0]
            out.viol("link_location", f"delivered element {tuple(bad.tolist())} carries the value located elsewhere (got code {np.ma.getdata(mag)[0][tuple(bad)]}, own location code {lb[tuple(bad)]})", a=a, b=b, masked=masked)
            return out
        if masked:
            # mask bit must travel with the value: decode via the value->mask map of the source
            src = dict(zip(la.ravel().tolist(), ma.ravel().tolist()))
            exp_mask = np.vectorize(lambda v: src[v])(lb)
            if not np.array_equal(np.ma.getmaskarray(mag)[0], exp_mask):
                out.viol("link_mask_location", "mask bits delivered at other locations than their values", a=a, b=b)
                return out
            out.count("masked_link_pulls")
        if got.units != fm.UNITS.Unit("m"):
            out.viol("link_units", f"units changed to {got.units}", a=a, b=b)
        if not np.array_equal(la, lb) or a["order"] != b["order"] or a["cls"] != b["cls"]:
            out.key = f"same:{sorted(a.items())!r}->{sorted(b.items())!r}:m{int(masked)}"
        if np.array_equal(la, lb):
            out.count("equal_layout_links")
        else:
            out.count("relayout_links")
        _ = same_layout, same_layout_data
        return out

    def coverage_gaps(self, counters, tier):
        need = ["compatible_pairs", "incompatible_pairs", "canonical_roundtrips", "transforms_no_time", "transform_none_equal_layout",
                "link_pulls", "masked_link_pulls", "relayout_links", "equal_layout_links", "incompatible_links_refused", "grids_with_changed_data_location", "grids_made_by_to_rectilinear", "static_link_pulls"]
        return [f"{k} never observed" for k in need if not counters.get(k)]


PROP = C15()
