"""C07 - after connect both ends of every link agree on metadata; conflicts are rejected.

Oracle: an independent rule table over (field x {set, unset, conflicting}) on the producer and
consumer side - grid compatibility through the located point set (model_grid), units through
C17's dimensional table, masks through C18's acceptance table - including 'the first requester
fills, later requesters are checked against it' for several consumers and adapters that rewrite
metadata. After a successful connect the input's metadata is inspected field by field and one
datum is sent over the link to confirm that the delivered data matches the agreed metadata.
"""
import logging

import numpy as np

import finam as fm

from .. import model_grid as mg
from ..harness import H, T0
from ..runner import Outcome, Property
from .c17 import o_compatible, o_convert

GEO = dict(cls="uniform", dims=[3, 4], order="F", reversed=False, increase=[True, True], location="CELLS")
GEO_RELAYOUT = dict(GEO, order="C", reversed=True, increase=[True, False])
GEO_OTHER = dict(GEO, dims=[4, 4])
GEO_FLIP = dict(GEO, increase=[True, False])  # same data shape as GEO, other orientation
GEO_CRS = dict(GEO_RELAYOUT, crs="EPSG:32632")  # the numbers of G, in a declared coordinate reference system
GRIDS = {"G": GEO, "Gr": GEO_RELAYOUT, "Gf": GEO_FLIP, "X": GEO_OTHER, "Gc": GEO_CRS}


def grid_of(code):
    if code is None:
        return None
    if code == "N0":
        return fm.NoGrid()
    if code in ("N1a", "N1b"):
        return fm.NoGrid(data_shape=(3,) if code == "N1a" else (5,))
    if code in ("Uc", "Up"):
        # one triangulated quad with two inner nodes: 6 nodes and 6 triangles, so cell data and point data have the same shape
        pts = [[0.0, 0.0], [3.0, 0.0], [3.0, 2.0], [0.0, 2.0], [1.0, 1.0], [2.0, 1.0]]
        cells = [[0, 1, 4], [4, 1, 5], [1, 2, 5], [2, 3, 5], [3, 4, 5], [3, 0, 4]]
        return fm.UnstructuredGrid(pts, cells, [fm.CellType.TRI] * 6, data_location="CELLS" if code == "Uc" else "POINTS")
    return mg.make_grid(GRIDS[code])


def located_mask(code, salt):
    v = mg.located(GRIDS[code])
    return np.floor(v * 4 + salt) % 3 == 0


def mask_of(code, gcode):
    """mask spec code -> value, expressed in the layout of grid gcode"""
    if code == "FLEX":
        return fm.Mask.FLEX
    if code == "NONE":
        return fm.Mask.NONE
    if code is None:
        return None
    if gcode in (None, "N0", "N1a", "N1b", "Uc", "Up"):
        return None
    if code == "rawA":
        # the *array* of mask A as laid out for grid G, reused as it is on another layout
        return located_mask("G", 0.0)
    return located_mask(gcode, 0.0 if code == "A" else 1.0)


class Src(fm.TimeComponent):
    def __init__(self, name, info, payload, repush=False):
        super().__init__()
        self._name, self.info0, self.payload, self.repush = name, info, payload, repush
        self._time = T0

    def _next_time(self):
        return self.time + H(1)

    def _initialize(self):
        if self.repush:
            self.outputs.add(name="out")  # metadata handed to try_connect, again on every call
        else:
            self.outputs.add(name="out", info=self.info0)
        self.create_connector()

    def _connect(self, st):
        payload = self.payload
        oi = self.connector.out_infos["out"]
        if payload is None and oi is not None:
            # the grid was left to the consumer: publish located values in whatever grid was agreed
            g = oi.grid
            if isinstance(g, fm.data.grid_base.Grid):
                payload = mg.encode_points(g.data_points).reshape(g.data_shape, order=g.order)
            else:
                payload = np.arange(float(g.data_shape[0])) if (g.dim == 1 and g.data_shape[0] > 0) else 7.0
        self.try_connect(st, push_infos={"out": self.info0.copy()} if self.repush else {}, push_data={} if payload is None else {"out": payload})

    def _validate(self):
        pass

    def _update(self):
        self._time = self._next_time()

    def _finalize(self):
        pass


class StaticSrc(fm.Component):
    """parameter provider: one static output, published once during connect"""

    def __init__(self, name, info, payload):
        super().__init__()
        self._name, self.info0, self.payload, self.repush = name, info, payload, False

    def _initialize(self):
        self.outputs.add(name="out", info=self.info0, static=True)
        self.create_connector()

    _connect = Src._connect

    def _validate(self):
        pass

    def _update(self):
        pass

    def _finalize(self):
        pass


class Dst(fm.TimeComponent):
    def __init__(self, name, info, late=None):
        super().__init__()
        self._name, self.info0, self.late = name, info, late
        self._time = T0
        self.rounds = 0

    def _next_time(self):
        return self.time + H(1)

    def _initialize(self):
        if self.late:
            self.inputs.add(name="in")  # metadata handed to try_connect once the other consumer has exchanged its own
        else:
            self.inputs.add(name="in", info=self.info0)
        self.create_connector(pull_data=["in"])

    def _connect(self, st):
        self.rounds += 1
        ex = {}
        if self.late and self.late() and self.connector.in_infos["in"] is None:
            ex = {"in": self.info0}
        self.try_connect(st, exchange_infos=ex)

    def _validate(self):
        pass

    def _update(self):
        self._time = self._next_time()

    def _finalize(self):
        pass


class LagTag(fm.TimeDelayAdapter):
    """a user-defined time-delay adapter (zero shift) that rewrites the metadata passing through it: adds one key"""

    def with_delay(self, time):
        return time

    def _get_info(self, info):
        in_info = self.exchange_info(info)
        return in_info.copy_with(lag_days=2)


class Relay(fm.TimeComponent):
    """takes everything from its input by transfer rule and republishes it on two outputs, each with one own metadata key"""

    def __init__(self, name, grid=None):
        super().__init__()
        self._name, self.grid0 = name, grid
        self._time = T0

    def _next_time(self):
        return self.time + H(1)

    def _initialize(self):
        # optionally the relay wants its input in a layout of its own: what it republishes is then in that layout
        self.inputs.add(name="in", time=None, grid=self.grid0, units=None)
        self.outputs.add(name="out")
        self.outputs.add(name="out2")
        rules = {o: [fm.tools.FromInput("in"), fm.tools.FromValue("origin", f"relay-{o}")] for o in ("out", "out2")}
        self.create_connector(pull_data=["in"], out_info_rules=rules)

    def _connect(self, st):
        d = self.connector.in_data["in"]
        self.try_connect(st, push_data={} if d is None else {"out": d, "out2": d})

    def _validate(self):
        pass

    def _update(self):
        self._time = self._next_time()

    def _finalize(self):
        pass


def grid_compatible(a, b):
    if a is None or b is None:
        return True
    if a[0] in "NU" or b[0] in "NU":
        return a == b  # grid-less data: same dimensionality and extents; the unstructured mesh: same data location
    return GRIDS[a]["dims"] == GRIDS[b]["dims"] and GRIDS[a].get("crs") == GRIDS[b].get("crs")


def mask_accept(prod, cons, prod_grid, cons_grid):
    """C18's acceptance table (None on the consumer side = take the producer's)"""
    if cons in ("FLEX", None):
        return True
    if cons == "NONE":
        return prod == "NONE"
    if cons == "rawA":
        # equal to the producer's mask only if it masks the same *locations*
        return prod == "A" and (cons_grid or prod_grid) in ("G",) and True
    return prod in ("A", "B") and prod == cons


class C07(Property):
    id = "C07"
    anchors = ('finam.data.tools.info:Info.accepts', 'finam.sdk.output:Output.get_info', 'finam.sdk.input:Input.exchange_info', 'finam.sdk.adapter:Adapter.exchange_info')
    technique = "rule-table oracle over set/unset/conflicting metadata fields vs outcome of the real connect(), field-by-field inspection of the exchanged input/output infos, and one datum sent over the link"
    rule = (
        "product over producer x consumer of time {set, unset}, grid {unset, G, G re-laid-out, other geometry, NoGrid}, units {m, km, s; consumer "
        "also unset}, mask {FLEX, NONE, fixed A, fixed B; consumer also unset}, extra metadata key {value, to-be-filled, absent}; one or two "
        "consumers (first requester fills, second checked), listing orders, pass-through and metadata-rewriting adapters (Scale, ValueToGrid, "
        "GridToValue, RegridNearest, SumOverTime) and a relaying component that republishes its input's metadata by transfer rule on two outputs with one own key each. non-trivial = >=1 field filled from the other side or >=1 conflict present; distinct by full "
        "combination"
    )
    assumptions = (
        "producers always declare units (an output without units cannot publish)",
        "two consumers that both leave a field unset which the producer also leaves unset are counted as unconstrained (who fills first is not specified)",
        "a consumer metadata key declared to-be-filled that the producer does not provide is counted as unconstrained",
    )
    cases = {"quick": 20000, "thorough": 1500000}
    min_nontrivial = {"quick": 8000, "thorough": 300000}

    def gen(self, rnd, i, tier):
        def side(is_prod):
            g = rnd.choice([None, "G", "G", "Gr", "Gf", "X", "N0", "N1a", "N1b", "G", "Gr", "Uc", "Up", "Gc"])
            return dict(
                time=rnd.random() < 0.7,
                grid=g,
                units=rnd.choice(["m", "km", "s"] if is_prod else ["m", "km", "s", None, None]),
                mask=rnd.choice(["FLEX", "FLEX", "NONE", "A", "B"] if is_prod else ["FLEX", "FLEX", "NONE", "A", "B", "rawA", None]),
                foo=rnd.choice(["absent", "absent", "value", "fill"] + (["zero"] if is_prod else [])),
            )

        p = side(True)
        ncons = 1 if rnd.random() < 0.7 else 2
        cons = [side(False) for _ in range(ncons)]
        if rnd.random() < 0.5:
            # bias toward compatible combinations so that successful exchanges are explored as often as rejections
            for c in cons:
                if rnd.random() < 0.8:
                    c["grid"] = rnd.choice([None, p["grid"], "Gr" if p["grid"] == "G" else p["grid"], "Gf" if p["grid"] == "G" else p["grid"]]) if p["grid"] else rnd.choice(["G", "Gr", "Gf", "N0", "Uc"])
                    if (p["grid"] or "-")[0] == "U" and rnd.random() < 0.3:
                        c["grid"] = rnd.choice(["Uc", "Up"])
                    if "Gc" in (p["grid"], c["grid"]) and rnd.random() < 0.5:
                        c["grid"] = rnd.choice(["G", "Gc", "Gr"])
                if rnd.random() < 0.8:
                    c["units"] = rnd.choice([None, "m", "km"]) if p["units"] in ("m", "km") else rnd.choice([None, p["units"]])
                if rnd.random() < 0.8:
                    c["mask"] = rnd.choice(["FLEX", None, p["mask"], "rawA" if p["mask"] == "A" else p["mask"]])
        adapter = rnd.choice([None, None, None, "scale", "scale", "v2g", "g2v", "regrid", "sum", "relay", "dmeta"])
        if ncons == 2 and adapter not in (None, "scale"):
            adapter = None
        if adapter in (None, "scale") and ncons == 1 and p["grid"] is None and rnd.random() < 0.5:
            p["mask"] = "rawA"  # a mask array declared without a grid: checked against the grid the consumer brings
            cons[0]["grid"] = rnd.choice(["G", "G", "X", "Gr", "Gf", None])
            cons[0]["mask"] = rnd.choice(["FLEX", None, "A", "B", "NONE"])
        if adapter == "v2g" and rnd.random() < 0.6:
            # a single value spread over the consumer's grid: grid-less producer, gridded consumer, plain masks
            p.update(grid=rnd.choice([None, "N0"]), mask=rnd.choice(["FLEX", "NONE"]))
            cons[0].update(grid=rnd.choice(["G", "Gr", "Gf", "X"]), mask=rnd.choice(["FLEX", None]))
        relay_grid = None
        if adapter == "relay" and rnd.random() < 0.7:
            p.update(time=True, grid=p["grid"] or "G", mask="FLEX", foo=rnd.choice(["absent", "value"]))
            if rnd.random() < 0.7:
                cons[0]["grid"] = rnd.choice([None, p["grid"]])
            if p["grid"] == "G" and rnd.random() < 0.5:
                relay_grid = rnd.choice(["Gr", "Gf"])
                cons[0]["grid"] = rnd.choice([None, None, "G", relay_grid])
        order = list(range(1 + ncons))
        rnd.shuffle(order)
        spec = dict(prod=p, cons=cons, adapter=adapter, order=order, relay_grid=relay_grid)
        if adapter in (None, "scale") and rnd.random() < 0.12:
            # static output (parameter provider); the consumers are ordinary timed inputs
            spec["static"] = True
            for c in cons:
                c["time"] = True
        elif adapter in (None, "scale") and rnd.random() < 0.25:
            # producer hands its metadata to every try_connect call; consumers may declare theirs some rounds late
            spec["repush"] = True
            spec["late"] = rnd.choice([None, 0, 1]) if ncons == 2 else None
        return spec

    # ------------------------------------------------------------------------------
    def expected(self, spec):
        """('ok'|'error'|'unconstrained', per-consumer expected input info)"""
        p, cons, ada = spec["prod"], spec["cons"], spec["adapter"]
        unconstrained = False
        exp = []
        pgrid, ptime, pfoo = p["grid"], p["time"], ("value" if p["foo"] == "zero" else p["foo"])  # a falsy value is a value
        # with two consumers the producer's unset fields are filled by whoever exchanges first
        if len(cons) == 2:
            for fld in ("grid", "time"):
                if not p[fld] and any(not c[fld] for c in cons):
                    unconstrained = True
            if p["foo"] == "fill" and any(c["foo"] != "value" for c in cons):
                unconstrained = True
            gs = [c["grid"] for c in cons if c["grid"]]
            if not p["grid"] and len(gs) == 2 and not grid_compatible(gs[0], gs[1]):
                return "error", None, unconstrained
        for c in cons:
            cgrid, punits, pmask = c["grid"], p["units"], p["mask"]
            src_grid = pgrid
            if ada in ("v2g", "g2v", "regrid") and ((pgrid or "-")[0] == "U" or (cgrid or "-")[0] == "U"):
                return "unconstrained", None, True  # the unstructured mesh is only used on plain links
            if ada == "relay" and (not ptime or pgrid is None or pfoo == "fill" or pmask != "FLEX"):
                # the relay takes everything from the producer: only fully declared producers are judged through it
                return "unconstrained", None, True
            if ada == "relay" and spec.get("relay_grid"):
                pgrid = spec["relay_grid"]  # downstream of the relay its own layout of the producer's geometry is what is published
            if ada == "v2g":
                # producer must be grid-less; adapter output grid comes from the consumer
                if pgrid not in (None, "N0"):  # ValueToGrid asks its source for 0-D data
                    return "error", None, unconstrained
                if cgrid in (None, "N0", "N1a", "N1b"):  # value 'to grid' onto a grid-less / unset target: degenerate, not judged
                    return "unconstrained", None, True
                src_grid, eff_pgrid = "N0", cgrid
            elif ada == "g2v":
                if pgrid in ("N0", "N1a", "N1b"):
                    return "unconstrained", None, True
                if pgrid is None:
                    return "error", None, unconstrained
                if cgrid not in (None, "N0"):
                    return ("unconstrained" if cgrid in ("N1a", "N1b") else "error"), None, cgrid in ("N1a", "N1b") or unconstrained
                eff_pgrid = "N0"
            elif ada == "regrid" and "Gc" in (pgrid, cgrid):
                return "unconstrained", None, True  # transforming between reference systems is the regridding adapter's own subject
            elif ada == "regrid":
                # the regridding adapter defines its own output mask: only the plain FLEX/FLEX case is judged here (C16)
                if pgrid in (None, "N0", "N1a", "N1b") or cgrid in (None, "N0", "N1a", "N1b") or c["mask"] != "FLEX" or p["mask"] != "FLEX":
                    return "unconstrained", None, True
                eff_pgrid = cgrid
            else:
                eff_pgrid = pgrid
            if ada in ("v2g", "g2v", "regrid") and (p["mask"] in ("A", "B") or c["mask"] in ("A", "B", "rawA")):
                return "unconstrained", None, True
            if eff_pgrid is None and cgrid is None:
                return ("unconstrained" if unconstrained else "error"), None, unconstrained
            if not grid_compatible(eff_pgrid, cgrid):
                return "error", None, unconstrained
            fgrid = cgrid or eff_pgrid
            # units
            eunits = punits
            if ada == "sum":
                if c["units"] is not None:
                    # per-time sum multiplies by time: the adapter delivers units*s, which none of the catalogue's
                    # consumer units (m, km, s) can be converted from
                    return "error", None, unconstrained
                eunits = punits + "*s"
            if c["units"] is not None and not o_compatible(eunits, c["units"]):
                return "error", None, unconstrained
            funits = c["units"] or eunits
            # masks (on a grid-less link fixed masks cannot be expressed in this catalogue)
            pm, cm = p["mask"], c["mask"]
            NOG = (None, "N0", "N1a", "N1b", "Uc", "Up")
            mgrid = pgrid  # the grid whose layout the producer's mask array is written in
            if pm == "rawA":
                # producer declares a mask array but leaves its grid to the consumer: the array must fit the grid it receives
                if ada not in (None, "scale") or len(cons) != 1 or pgrid is not None:
                    return "unconstrained", None, True
                if cgrid in ("X", "Gr"):
                    return "error", None, unconstrained  # the declared mask has another shape than the data of that grid
                if cgrid != "G":
                    return "unconstrained", None, True
                pm, mgrid = "A", "G"
            if (pm in ("A", "B") and (mgrid in NOG)) or (cm in ("A", "B", "rawA") and (cgrid in NOG and pgrid in NOG)):
                return "unconstrained", None, True
            if cm in ("A", "B", "rawA") and (cgrid in ("N0", "N1a", "N1b", "Uc", "Up") or (cgrid is None and pgrid in NOG)):
                return "unconstrained", None, True
            if cm == "rawA" and (cgrid or pgrid) not in ("G", "Gf"):
                return "unconstrained", None, True  # raw array of other shape: constructing the Info already fails
            if not mask_accept(pm, cm, mgrid, cgrid):
                return "error", None, unconstrained
            fmask = pm if cm in ("FLEX", None) else ("A" if cm == "rawA" else cm)
            # time
            if not ptime and not c["time"]:
                return ("unconstrained" if unconstrained else "error"), None, unconstrained
            # extra metadata
            if pfoo == "fill" and c["foo"] != "value":
                return ("unconstrained" if unconstrained else "error"), None, unconstrained
            if c["foo"] == "fill" and pfoo == "absent":
                unconstrained = True
            ffoo = "C" if c["foo"] == "value" else ("P" if pfoo == "value" else ("C1" if pfoo == "fill" else None))
            exp.append(dict(grid=fgrid, units=funits, mask=fmask, foo=ffoo, src_grid=src_grid))
        return ("unconstrained" if unconstrained else "ok"), exp, unconstrained

    def run(self, spec):
        out = Outcome()
        out.sample = spec
        p, cons, ada = spec["prod"], spec["cons"], spec["adapter"]

        def meta(s, who):
            if s["foo"] == "value":
                return dict(foo=f"{who}-foo")
            if s["foo"] == "zero":
                return dict(foo=0.0)  # set, but falsy
            if s["foo"] == "fill":
                return dict(foo=None)
            return {}

        pinfo = fm.Info(time=T0 if p["time"] else None, grid=grid_of(p["grid"]), units=p["units"], mask=located_mask("G", 0.0) if p["mask"] == "rawA" else mask_of(p["mask"], p["grid"]), **meta(p, "P"))
        if p["grid"] in GRIDS:
            payload = mg.located(GRIDS[p["grid"]])
            if p["mask"] in ("A", "B"):
                payload = np.ma.array(payload, mask=located_mask(p["grid"], 0.0 if p["mask"] == "A" else 1.0))
        else:
            # a producer that leaves its grid to the consumer publishes in the consumer's grid
            payload = None if p["grid"] is None else (np.arange(3.0) if p["grid"] == "N1a" else (np.arange(5.0) if p["grid"] == "N1b" else (np.arange(6.0) if p["grid"] in ("Uc", "Up") else 7.0)))
        prod = StaticSrc("P", pinfo, payload) if spec.get("static") else Src("P", pinfo, payload, repush=bool(spec.get("repush")))
        dsts = []
        for k, c in enumerate(cons):
            try:
                cinfo = fm.Info(time=T0 if c["time"] else None, grid=grid_of(c["grid"]), units=c["units"], mask=mask_of(c["mask"], c["grid"] or p["grid"]), **meta(c, f"C{k}"))
            except fm.FinamMetaDataError:
                out.count("consumer_info_not_constructible")
                return out
            late = None
            if spec.get("late") == k:
                late = lambda other=1 - k: dsts[other].connector.in_infos["in"] is not None
            dsts.append(Dst(f"C{k}", cinfo, late=late))
        comps = [prod] + dsts
        listed = [comps[i] for i in spec["order"]]
        relay = sink2 = None
        if ada == "relay":
            relay, sink2 = Relay("R", grid_of(spec.get("relay_grid"))), Dst("S2", fm.Info(time=None, grid=None, units=None))
            if spec.get("relay_grid"):
                out.count("relays_with_a_layout_of_their_own")
            listed = listed + [relay, sink2] if spec["order"][0] == 0 else [sink2, relay] + listed
        composition = fm.Composition(listed, print_log=False, log_level=logging.CRITICAL + 10)
        adas = []
        for d in dsts:
            x = prod.outputs["out"]
            if relay is not None:
                x >> relay.inputs["in"]
                relay.outputs["out2"] >> sink2.inputs["in"]
                relay.outputs["out"] >> d.inputs["in"]
                continue
            if ada:
                a = {"scale": lambda: fm.adapters.Scale(1.0), "v2g": lambda: fm.adapters.ValueToGrid(None), "g2v": lambda: fm.adapters.GridToValue(np.mean),
                     "regrid": fm.adapters.RegridNearest, "sum": lambda: fm.adapters.SumOverTime(per_time=True), "dmeta": LagTag}[ada]()
                adas.append(a)
                x = x >> a
            x >> d.inputs["in"]
        exp_outcome, exp, _unc = self.expected(spec)
        try:
            composition.connect(T0)
            got = "ok"
        except fm.FinamMetaDataError as e:
            got, msg = "error", str(e)
        except Exception as e:  # pylint: disable=broad-except
            got, msg = "other:" + type(e).__name__, str(e)
        out.count("exchanges")
        out.count("adapter_" + str(ada))
        if spec.get("repush"):
            out.count("metadata_handed_over_on_every_round")
        if spec.get("static"):
            out.count("static_outputs")
        tag = f"producer {p}, consumer(s) {cons}, adapter {ada}, order {spec['order']}" + (", static output" if spec.get("static") else "") + (f", producer re-hands its metadata every round, consumer {spec['late']} declares its metadata after the other one has exchanged" if spec.get("repush") else "")
        if exp_outcome == "unconstrained":
            out.notes.append("unconstrained combination -> " + got.split(":")[0])
            out.count("unconstrained_combinations")
            return out
        if got.startswith("other"):
            out.viol("non_metadata_error", f"connect() ended with {got}: {msg[:200]} (rule table expects {exp_outcome}); {tag}", spec=spec)
            return out
        if got != exp_outcome:
            if got == "ok":
                out.viol("conflict_accepted", f"rule table expects a metadata error, connect() succeeded; {tag}", spec=spec)
            else:
                out.viol("compatible_rejected", f"rule table expects success, connect() raised FinamMetaDataError: {msg[:200]}; {tag}", spec=spec)
            return out
        conflict = exp_outcome == "error"
        filled = False
        if got == "ok":
            out.count("successful_exchanges")
            for k, (d, c, e) in enumerate(zip(dsts, cons, exp)):
                info = d.inputs["in"].info
                # 1. no unset field
                if info.time is None or info.grid is None or info.units is None or info.mask is None or any(v is None for v in info.meta.values()):
                    out.viol("unset_field_after_connect", f"C{k} input info still has an unset field: time={info.time} grid={info.grid} units={info.units} mask={info.mask} meta={info.meta}; {tag}", spec=spec)
                    return out
                # 2. grid describes the delivered locations
                egrid = grid_of(e["grid"])
                if not (info.grid == egrid):
                    out.viol("input_grid", f"C{k} input grid {info.grid} expected {egrid}; {tag}", spec=spec)
                    return out
                # 3. units
                eu = e["units"]
                if ada != "sum" and info.units != fm.UNITS.Unit(eu):
                    out.viol("input_units", f"C{k} input units {info.units} expected {eu}; {tag}", spec=spec)
                    return out
                # 4. mask requirement, in the layout of the input's own grid
                if e["mask"] in ("A", "B") and e["grid"] in GRIDS:
                    em = located_mask(e["grid"], 0.0 if e["mask"] == "A" else 1.0)
                    im = info.mask
                    if not (isinstance(im, np.ndarray) and im.shape == em.shape and np.array_equal(im, em)):
                        out.viol("input_mask_metadata", f"C{k} input info mask does not describe the masked locations in the layout of its own grid ({e['grid']}): {np.asarray(im).tolist()} expected {em.tolist()}; {tag}", spec=spec)
                        return out
                    out.count("fixed_mask_metadata_checked")
                elif e["mask"] in ("FLEX", "NONE") and info.mask is not getattr(fm.Mask, e["mask"]):
                    out.viol("input_mask_metadata", f"C{k} input mask {info.mask} expected {e['mask']}; {tag}", spec=spec)
                    return out
                # 5. fields filled from the other side
                if e["foo"] is not None:
                    want = {"C": f"C{k}-foo", "P": ("P-foo" if p["foo"] == "value" else 0.0)}.get(e["foo"])
                    if want and info.meta.get("foo") != want:
                        out.viol("meta_not_carried", f"C{k} input meta foo={info.meta.get('foo')!r} expected {want!r}; {tag}", spec=spec)
                        return out
                if (not c["time"]) or (not c["grid"]) or c["units"] is None or c["mask"] is None or c["foo"] == "fill" or not p["time"] or not p["grid"] or p["foo"] == "fill":
                    filled = True
                # 6. the datum pulled at connect matches the agreed metadata
                data = d.connector.in_data["in"]
                mag = data.magnitude
                if e["grid"] in GRIDS and ada in (None, "scale", "relay", "dmeta"):
                    expv = o_convert(mg.located(GRIDS[e["grid"]]), p["units"], e["units"])
                    keep = ~located_mask(e["grid"], 0.0 if e["mask"] == "A" else 1.0) if e["mask"] in ("A", "B") else np.ones(expv.shape, bool)
                    if mag.shape != (1,) + expv.shape or not np.allclose(np.ma.getdata(mag)[0][keep], expv[keep], rtol=1e-9):
                        out.viol("delivered_data_vs_metadata", f"C{k}: data delivered over the link does not match the agreed grid/units; {tag}", spec=spec)
                        return out
                    if e["mask"] in ("A", "B") and not np.array_equal(np.ma.getmaskarray(mag)[0], ~keep):
                        out.viol("delivered_mask_vs_metadata", f"C{k}: delivered mask differs from the agreed fixed mask; {tag}", spec=spec)
                        return out
                    out.count("data_checked_against_metadata")
                elif ada == "v2g" and e["grid"] in GRIDS and e["mask"] in ("FLEX", "NONE") and p["grid"] in (None, "N0"):
                    # the single value spread over the grid, in the units the two ends agreed on
                    expv = float(o_convert(np.array(7.0), p["units"], e["units"]))
                    if mag.shape != (1,) + tuple(grid_of(e["grid"]).data_shape) or not np.allclose(np.ma.getdata(mag), expv, rtol=1e-9):
                        out.viol("delivered_data_vs_metadata", f"C{k}: value 7.0 {p['units']} spread over the grid arrives as {np.ma.getdata(mag).ravel()[:3].tolist()} {data.units}, expected {expv} {e['units']}; {tag}", spec=spec)
                        return out
                    out.count("value_to_grid_data_checked")
            for a in adas:
                # the sending end of the adapter-to-input link must say what the input was told
                ai, di = a.info, dsts[0].inputs["in"].info
                out.count("adapter_ends_compared")
                if ada == "dmeta" and (ai.meta.get("lag_days") != 2 or di.meta.get("lag_days") != 2):
                    out.viol("adapter_end_metadata", f"metadata rewritten by the adapter: adapter.info says lag_days={ai.meta.get('lag_days')!r}, input.info says {di.meta.get('lag_days')!r}, expected 2 on both; {tag}", spec=spec)
                    return out
                if ada in ("scale", "dmeta") and len(dsts) == 1 and not (ai.grid == di.grid or ai.grid.compatible_with(di.grid)):
                    out.viol("adapter_end_metadata", f"adapter.info grid {ai.grid} vs input.info grid {di.grid}; {tag}", spec=spec)
                    return out
            if relay is not None:
                # the relay's own link ends: its input agrees with the producer, each output carries its own key only
                rin, o1, o2 = relay.inputs["in"].info, relay.outputs["out"].info, relay.outputs["out2"].info
                want_meta = dict(units=fm.UNITS.Unit(p["units"]), **({"foo": "P-foo"} if p["foo"] == "value" else ({"foo": 0.0} if p["foo"] == "zero" else {})))
                if dict(rin.meta) != want_meta or not (rin.grid == grid_of(spec.get("relay_grid") or p["grid"])):
                    out.viol("relay_input_metadata", f"input of the relaying component reports meta {dict(rin.meta)} grid {rin.grid}, its link carries {want_meta} / {p['grid']}; {tag}", spec=spec)
                    return out
                got_o = (o1.meta.get("origin"), o2.meta.get("origin"), dsts[0].inputs["in"].info.meta.get("origin"), sink2.inputs["in"].info.meta.get("origin"))
                if got_o != ("relay-out", "relay-out2", "relay-out", "relay-out2"):
                    out.viol("relay_output_metadata", f"metadata keys set per output by transfer rule arrive as {got_o}; {tag}", spec=spec)
                    return out
                if prod.outputs["out"].info.meta.get("origin") is not None:
                    out.viol("relay_input_metadata", f"producer output info gained the relay's key: {dict(prod.outputs['out'].info.meta)}; {tag}", spec=spec)
                    return out
                out.count("relay_links_checked")
            # output side: unset fields carry the consumers' values, set ones keep their own
            oinfo = prod.outputs["out"].info
            if p["foo"] in ("value", "zero") and oinfo.meta.get("foo") != ("P-foo" if p["foo"] == "value" else 0.0):
                out.viol("producer_field_overwritten", f"producer declared foo={'P-foo' if p['foo'] == 'value' else 0.0!r}, after connect its output info says {oinfo.meta.get('foo')!r}; {tag}", spec=spec)
                return out
            if oinfo.grid is None or oinfo.time is None or any(v is None for v in oinfo.meta.values()):
                out.viol("output_unset_field", f"producer output info has unset fields after connect: {oinfo}; {tag}", spec=spec)
                return out
        else:
            out.count("rejected_exchanges")
        if filled or conflict:
            out.key = repr((p, cons, ada, len(cons) > 1 and spec["order"], spec.get("repush") and (1, spec["late"]), bool(spec.get("static"))))
        if len(cons) == 2:
            out.count("two_consumer_cases")
        return out

    def coverage_gaps(self, counters, tier):
        need = ["exchanges", "successful_exchanges", "rejected_exchanges", "two_consumer_cases", "fixed_mask_metadata_checked", "data_checked_against_metadata",
                "adapter_None", "adapter_scale", "adapter_v2g", "adapter_g2v", "adapter_regrid", "adapter_sum", "adapter_relay", "relay_links_checked", "metadata_handed_over_on_every_round", "static_outputs", "value_to_grid_data_checked", "adapter_dmeta", "adapter_ends_compared", "relays_with_a_layout_of_their_own"]
        return [f"{k} never observed" for k in need if not counters.get(k)]


PROP = C07()
