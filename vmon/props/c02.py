"""C02 - the driver follows least-advanced-first and updates only what is needed; the time it
checks availability for equals the time actually requested from the source output.

Every update of every generated run is judged: (i) justification - the updated component is a
least-advanced one or lies upstream of it along a chain of components that still lack data
(search on the independent model's lacking-graph); (ii) assumption = request - for every link
without a push-based adapter the time reaching the source output during the update equals the
time the model derived (chained delays accumulate); an over-assuming driver shows up as an
unjustified update, an under-assuming one as a lacking source (reported under C01 as well).
"""
from .. import gen_coupling, sched_run
from ..runner import Outcome, Property
from .c01 import classify_orderings, shape_key


class C02(Property):
    id = "C02"
    anchors = ('finam.schedule:Composition.run', 'finam.schedule:Composition._update_recursive', 'finam.schedule:_find_dependencies', 'finam.sdk.adapter:TimeDelayAdapter.get_data')
    technique = "runtime monitor on every update(): justification-chain search on an independent scheduling model + comparison of model-derived and actually requested source times"
    rule = (
        "same generator family as C01 with more multi-delay links (fixed+fixed, fixed+to-pull around pass-through adapters), parallel links "
        "from one output to two inputs of one component with different delay chains, pull-based components, equal/multiple/co-prime step "
        "ratios, all listing orders random; every update event is judged. non-trivial = >=1 update of a non-minimal component justified by a "
        "chain of length >=2, or a multi-delay link exercised; distinct by composition shape key"
    )
    assumptions = (
        "ties in time accept any least-advanced component as root",
        "per-adapter shifts come from the adapters' own public with_delay (C13 checks those); the composition rule is the model's",
    )
    cases = {"quick": 1500, "thorough": 120000}
    min_nontrivial = {"quick": 400, "thorough": 20000}

    def gen(self, rnd, i, tier):
        cyc = "sufficient" if rnd.random() < 0.3 else None
        spec = gen_coupling.gen_dag(rnd, cycle=cyc, parallel_prob=0.4, shipped=0.0 if cyc else 0.25)
        # enrich: extra delay adapters on random forward links (several delays on one link)
        for ln in spec["links"]:
            if rnd.random() < 0.35 and not any(a[0] in gen_coupling.INTEG for a in ln["chain"]) and not ln["src"][0].startswith("p") and not ln.get("stateless_only"):
                extra = [["dfix", rnd.choice([1, 2, 3, 6])], [rnd.choice(["scale", "probe"])], rnd.choice([["dfix", rnd.choice([1, 4, 7])], ["dpull", rnd.choice([1, 2]), rnd.choice([0, 2])]])]
                pos = rnd.randint(0, len(ln["chain"]))
                ln["chain"][pos:pos] = extra
        if rnd.random() < 0.3:
            gen_coupling.with_user_adapters(spec, rnd, 0.4)  # user-defined push-based adapters in the place of shipped ones
        return spec

    def run(self, spec):
        out = Outcome()
        out.sample = spec
        rep = sched_run.run_spec(spec)
        out.count("updates_judged", len(rep.updates))
        out.count("compositions")
        out.count("requests_compared", rep.requests_compared)
        classify_orderings(spec, out)
        for u in rep.unjustified:
            out.viol("unjustified_update", f"update of {u['comp']} at {u['time']}h not justified: {u['reason']}; component times {u['times']}", spec=spec, witness=u)
        for m in rep.request_mismatch:
            out.viol("assumed_vs_requested", f"during update of {m['comp']}: {m['output']} was asked for {m['requested']}h, the model (accumulated delays) needs {m['model_needs']}", spec=spec, witness=m)
        for lk in rep.lacking_at_update:
            out.viol("updated_while_lacking", f"update of {lk['comp']} (announced pull {lk['next']}h) while sources lag: {lk['lacking']}", spec=spec, witness=lk)
        if rep.outcome != "ok":
            if not out.violations:
                out.notes.append(f"run aborted in {rep.phase}: {rep.outcome}")
                out.count("aborted_runs")
            return out
        hist = {}
        for u in rep.updates:
            hist[u.get("chain_len", 0)] = hist.get(u.get("chain_len", 0), 0) + 1
        for k, v in hist.items():
            out.count(f"justification_chain_len_{min(k, 4)}", v)
        multi = any(sum(1 for a in ln["chain"] if a[0] in ("dfix", "dpull")) >= 2 for ln in spec["links"])
        if any(k >= 2 for k in hist) or multi:
            out.key = shape_key(spec)
        if multi:
            out.count("compositions_with_multi_delay_links")
        pairs = {}
        for ln in spec["links"]:
            pairs[(ln["src"][0], ln["dst"][0])] = pairs.get((ln["src"][0], ln["dst"][0]), 0) + 1
        if any(v > 1 for v in pairs.values()):
            out.count("compositions_with_parallel_links")
        return out

    def coverage_gaps(self, counters, tier):
        need = ["updates_judged", "requests_compared", "justification_chain_len_1", "justification_chain_len_2", "justification_chain_len_3",
                "compositions_with_multi_delay_links", "compositions_with_parallel_links", "links_with_user_defined_delay_adapter", "adapter_hold"]
        gaps = [f"{k} never observed" for k in need if not counters.get(k)]
        if counters.get("aborted_runs", 0) > 0.05 * max(1, counters.get("compositions", 0)):
            gaps.append(f"{counters.get('aborted_runs')} of {counters.get('compositions')} runs aborted for reasons outside this property")
        return gaps


PROP = C02()
