"""C16 - regridding puts the right source value at each target location.

Oracle: brute-force O(n*m) geometry on coordinates computed independently of finam's point
generators (closed-form for structured grids, the generator's own points for unstructured ones),
unique located values to identify which source location each delivered value came from, hull
membership through scipy.spatial.Delaunay, and a poison run (values under the source mask replaced
by 1e30) to show that masked source values never influence unmasked results.
"""
import numpy as np
from scipy.spatial import Delaunay

import finam as fm
from finam.adapters import RegridLinear, RegridNearest

from .. import model_grid as mg
from .. import slots
from ..findings import predicate
from ..runner import Outcome, Property


@predicate("regrid_linear_1d_unstructured_source")
def _f16(pid, spec, v):
    return (pid == "C16" and spec.get("method") == "linear" and spec["src"]["dim"] == 1 and v.get("kind") == "regrid_failed"
            and "Need at least 2-D data" in v.get("detail", ""))


def make(gs, rng_seed):
    """grid spec -> (finam grid, coords array (n, dim) in DATA order of the payload, data shape, order)"""
    kind = gs["kind"]
    if kind == "struct":
        s = gs["spec"]
        if gs.get("via_location_change") and s["cls"] != "esri":
            # history: built for the other data location, points/shape read, then switched
            g = mg.make_grid(dict(s, location="POINTS" if s["location"] == "CELLS" else "CELLS"))
            _ = (g.data_points, g.data_shape, g.data_size)
            g.data_location = s["location"]
        else:
            g = mg.make_grid(s)
        ca = mg.coord_arrays(s)
        shape = mg.data_shape(s)
        coords = np.stack([c.reshape(shape) for c in ca], axis=-1)  # shape + (dim,)
        return g, coords, shape, s["order"]
    rng = np.random.default_rng(rng_seed)
    dim = gs["dim"]
    if kind == "upoints" and gs.get("crs"):
        # scattered points in a projected reference system; the oracle keeps them in the frame of the SOURCE grid's system
        # (where finam measures distances), the finam grid gets the coordinates of its own system
        from pyproj import Transformer

        n = gs["n"]
        pts = np.round(rng.random((n, 2)) * 2.0e5 + np.array([4.0e5, 5.4e6]), 3)
        native = pts
        if gs["crs"] != gs["frame"]:
            native = np.column_stack(Transformer.from_crs(gs["frame"], gs["crs"]).transform(pts[:, 0], pts[:, 1]))
        g = fm.UnstructuredPoints(native, order=gs.get("order", "C"), crs=gs["crs"])
        return g, pts, (n,), gs.get("order", "C")
    if kind == "upoints":
        n = gs["n"]
        pts = rng.random((n, dim)) * np.array([6.0, 5.0, 4.0])[:dim] + np.array([9.0, -4.0, 6.0])[:dim]
        pts = np.round(pts, 3)
        g = fm.UnstructuredPoints(pts, order=gs.get("order", "C"))
        return g, pts, (n,), gs.get("order", "C")
    # triangulated lattice (2-D) with jittered nodes, data on cells or points
    nx, ny = gs["nx"], gs["ny"]
    xs, ys = np.meshgrid(np.arange(nx) * 1.5 + 9.0, np.arange(ny) * 1.25 - 4.0, indexing="ij")
    pts = np.stack([xs.ravel(), ys.ravel()], axis=1) + np.round(rng.random((nx * ny, 2)) * 0.3, 3)
    cells, types = [], []
    for i in range(nx - 1):
        for j in range(ny - 1):
            a, b, c, d = i * ny + j, (i + 1) * ny + j, (i + 1) * ny + j + 1, i * ny + j + 1
            if gs.get("mixed") and (i + j) % 2 == 0:
                cells.append([a, b, c, d])  # quad
                types.append(fm.CellType.QUAD)
            else:
                cells += [[a, b, c], [a, c, d]]
                types += [fm.CellType.TRI, fm.CellType.TRI]
    loc = gs["location"]
    width = max(len(c) for c in cells)
    padded = [c + [-1] * (width - len(c)) for c in cells]  # mixed meshes pad shorter cells with -1
    g = fm.UnstructuredGrid(pts, padded, types, data_location=loc, order=gs.get("order", "C"))
    if loc == "POINTS":
        return g, pts, (len(pts),), gs.get("order", "C")
    cen = np.array([pts[c].mean(axis=0) for c in cells])
    return g, cen, (len(cells),), gs.get("order", "C")


def rand_grid(rnd, dim, allow_esri=True):
    r = rnd.random()
    if r < 0.55:
        classes = ("uniform", "rect", "esri") if (dim == 2 and allow_esri) else ("uniform", "rect")
        s = mg.random_structured_spec(rnd, dim=dim, classes=classes, lens=(2, 3, 4, 5))
        if s["cls"] == "esri":
            s["dims"] = [rnd.choice([3, 4, 5]), rnd.choice([3, 4])]
        return dict(kind="struct", spec=s, dim=len(s["dims"]), via_location_change=rnd.random() < 0.2)
    if r < 0.8 or dim != 2:
        return dict(kind="upoints", dim=dim, n=rnd.randint(dim + 4, 14), order=rnd.choice("CF"))
    return dict(kind="ucells", dim=2, nx=rnd.randint(3, 4), ny=rnd.randint(3, 4), location=rnd.choice(["CELLS", "CELLS", "POINTS"]), order=rnd.choice("CF"),
                mixed=rnd.random() < 0.5)


class C16(Property):
    id = "C16"
    anchors = ('finam.adapters.regrid:ARegridding._get_info', 'finam.adapters.regrid:ARegridding._get_in_coords', 'finam.adapters.regrid:RegridNearest._get_data', 'finam.adapters.regrid:RegridLinear._get_data', 'finam.data.tools.mask:to_compressed', 'finam.data.tools.mask:from_compressed')
    technique = "brute-force geometric oracle with unique located values (nearest), affine-field reproduction + Delaunay hull membership (linear), poison differential for masked sources; real Output>>Regrid*>>Input links"
    rule = (
        "source/target pairs from {uniform, rectilinear, ESRI in all layouts, unstructured triangle cells/points, scattered points} in 1-3 D, "
        "masks {none, random} on either side, nearest (random unique ids; identity between layouts of one grid) and linear for unstructured or "
        "masked sources (affine fields, with and without fill_with_nearest). non-trivial = >=4 unmasked target elements checked and source "
        "and target differ in layout/geometry; distinct by the full pair spec; every 16th case (nearest) couples scattered points given in two "
        "different projected reference systems (UTM zones 31N-33N), judged by distances in the source system"
    )
    assumptions = (
        "structured *unmasked* linear sources are outside the property (and that scipy path cannot run in this environment)",
        "target locations within 1e-9 (relative to the grid extent) of the hull boundary are unconstrained for linear regridding",
        "sources keep >= dim+2 unmasked, affinely independent locations (degenerate triangulations are out of domain)",
    )
    cases = {"quick": 3000, "thorough": 200000}
    min_nontrivial = {"quick": 1200, "thorough": 50000}

    def gen(self, rnd, i, tier):
        method = "nearest" if i % 2 == 0 else "linear"
        dim = rnd.choice([1, 2, 2, 2, 3])
        src = rand_grid(rnd, dim)
        if method == "nearest" and rnd.random() < 0.06:
            # fine-to-coarse: several hundred source locations (more than fit a byte index), few targets
            dim = 2
            if rnd.random() < 0.5:
                sp = mg.random_structured_spec(rnd, dim=2, classes=("uniform", "rect"), lens=(17, 19, 23))
                src = dict(kind="struct", spec=sp, dim=2, via_location_change=False)
            else:
                src = dict(kind="upoints", dim=2, n=rnd.randint(280, 420), order=rnd.choice("CF"))
            src["large"] = True
        if rnd.random() < 0.2 and method == "nearest" and not src.get("large") and src["kind"] == "struct" and src["spec"]["cls"] != "esri":
            lay = rnd.choice(list(mg.layouts(len(src["spec"]["dims"]))))
            tgt = dict(kind="struct", spec=dict(src["spec"], **lay), dim=src["dim"])
            same = True
        else:
            tgt = rand_grid(rnd, src["dim"])
            same = False
        if method == "nearest" and i % 16 == 6:
            # different coordinate reference systems on the two sides (UTM zones; projected, easting/northing on both sides)
            a, b = rnd.sample(["EPSG:32631", "EPSG:32632", "EPSG:32633"], 2)
            src = dict(kind="upoints", dim=2, n=rnd.randint(6, 14), order=rnd.choice("CF"), crs=a, frame=a)
            tgt = dict(kind="upoints", dim=2, n=rnd.randint(6, 14), order=rnd.choice("CF"), crs=b, frame=a)
            same = False
        smask = rnd.choice(["none", "random", "random"])
        if method == "linear" and src["kind"] == "struct":
            smask = "random"  # only masked structured sources take the unstructured path
        tmask = rnd.choice(["FLEX", "FLEX", "fixed", "NONE"])
        fill = rnd.random() < 0.5
        if method == "linear" and not fill:
            tmask = "FLEX"
        spec = dict(method=method, src=src, tgt=tgt, same_geometry=same, smask=smask, tmask=tmask, fill=fill, seed=rnd.randrange(1 << 30))
        if rnd.random() < 0.2 and not same:
            # the target mask is given to the adapter itself (out_mask=...), the consumer accepts any mask
            spec.update(tmask="FLEX", ada_mask=True)
        return spec

    def run(self, spec):
        out = Outcome()
        out.sample = spec
        rng = np.random.default_rng(spec["seed"])
        gs, cs, sshape, sorder = make(spec["src"], spec["seed"])
        gt, ct, tshape, torder = make(spec["tgt"], spec["seed"] + 1)
        dim = spec["src"]["dim"]
        if spec["src"].get("large"):
            out.count("sources_with_more_than_256_locations")
        ns, nt = int(np.prod(sshape)), int(np.prod(tshape))
        cs2, ct2 = cs.reshape(ns, dim), ct.reshape(nt, dim)  # C-order flattening of the data shape (oracle's own convention)
        # masks in data shape
        if spec["smask"] == "random":
            ms = rng.random(sshape) < 0.3
            keep_idx = np.flatnonzero(~ms.ravel())
            if len(keep_idx) < dim + 2:
                ms[...] = False
        else:
            ms = None
        if spec["tmask"] == "fixed":
            mt = rng.random(tshape) < 0.3
            if mt.all():
                mt.flat[0] = False
        else:
            mt = None
        unm_s = np.ones(ns, bool) if ms is None else ~ms.ravel()
        ada_mask = None
        if spec.get("ada_mask"):
            ada_mask = rng.random(tshape) < 0.3
            if spec["method"] == "linear" and not spec["fill"] and dim > 1 and unm_s.sum() >= dim + 2:
                # without filling, the requested mask has to cover everything outside the hull (judged with a safety margin)
                try:
                    tri0 = Delaunay(cs2[unm_s])
                    c00 = cs2[unm_s].mean(axis=0)
                    safe = tri0.find_simplex(c00 + (ct2 - c00) * (1 + 1e-6)) >= 0
                    ada_mask |= ~safe.reshape(tshape)
                except Exception:  # pylint: disable=broad-except
                    ada_mask = None
            elif spec["method"] == "linear" and not spec["fill"]:
                ada_mask = None
            if ada_mask is not None and ada_mask.all():
                ada_mask = None
            if ada_mask is not None:
                mt = ada_mask
                out.count("target_mask_given_to_the_adapter")
        if spec["method"] == "linear":
            # affinely independent unmasked source locations, else out of domain
            P = cs2[unm_s]
            if len(P) < dim + 2 or np.linalg.matrix_rank(P - P[0], tol=1e-9) < dim:
                out.count("out_of_domain_degenerate_source")
                return out
        # payload
        if spec["method"] == "nearest":
            vals = (rng.permutation(ns).astype(float) + 1.0).reshape(sshape)  # unique ids
        else:
            a = rng.integers(-3, 4, size=dim).astype(float)
            b = float(rng.integers(-5, 6))
            vals = (cs2 @ a + b).reshape(sshape)
        extent = float(np.max(np.ptp(np.vstack([cs2, ct2]), axis=0))) or 1.0

        def deliver(values):
            sinfo = fm.Info(time=slots.T0, grid=gs, units="m", mask=(ms if ms is not None else fm.Mask.FLEX))
            tinfo = fm.Info(time=slots.T0, grid=gt, units="m", mask=(mt if (mt is not None and ada_mask is None) else getattr(fm.Mask, spec["tmask"]) if spec["tmask"] in ("FLEX", "NONE") else fm.Mask.FLEX))
            kw = dict(out_mask=ada_mask.copy()) if ada_mask is not None else {}
            ada = RegridNearest(**kw) if spec["method"] == "nearest" else RegridLinear(fill_with_nearest=spec["fill"], **kw)
            o, (inp,) = slots.simple_link(sinfo, tinfo, adapters=[ada])
            payload = np.ma.array(values, mask=ms) if ms is not None else values
            o.push_data(payload, slots.T0)
            deliver.out = o
            return inp.pull_data(slots.T0), inp

        out.count("pairs")
        out.count("method_" + spec["method"])
        try:
            got, inp = deliver(vals.copy())
        except (fm.FinamDataError, fm.FinamMetaDataError) as e:
            if spec["method"] == "linear" and spec["tmask"] == "NONE" and "not covering" in str(e):
                out.count("legitimate_domain_refusals")
                return out
            out.viol("regrid_failed", f"{spec['method']} regridding refused a valid pair: {type(e).__name__}: {e}", spec=spec)
            return out
        except Exception as e:  # pylint: disable=broad-except
            out.viol("regrid_failed", f"{spec['method']} regridding crashed: {type(e).__name__}: {e}", spec=spec)
            return out
        mag = got.magnitude
        if mag.shape != (1,) + tuple(tshape):
            out.viol("shape", f"delivered shape {mag.shape} expected {(1,) + tuple(tshape)}", spec=spec)
            return out
        res = np.ma.getdata(mag)[0].reshape(nt)
        rmask = (np.ma.getmaskarray(mag)[0] if np.ma.isMaskedArray(mag) else np.zeros(tshape, bool)).reshape(nt)
        if spec["seed"] % 3 == 1:
            # history: a second publication through the same link; what was delivered before must not change underneath its holder
            held = mag
            held_copy = np.ma.getdata(mag).copy()
            vals2 = vals + 1000.0
            deliver.out.push_data(np.ma.array(vals2, mask=ms) if ms is not None else vals2, slots.t(3600))
            got_b = inp.pull_data(slots.t(3600))
            out.count("second_publication_through_the_same_link")
            if not np.array_equal(np.ma.getdata(held)[~np.ma.getmaskarray(held)], held_copy[~np.ma.getmaskarray(held)]):
                out.viol("delivered_data_changed_later", "the array delivered for the first publication changed when the second one was pulled", spec=spec)
                return out
            rb = np.ma.getdata(got_b.magnitude)[0].reshape(nt)
            kb = (np.ma.getmaskarray(got_b.magnitude)[0] if np.ma.isMaskedArray(got_b.magnitude) else np.zeros(tshape, bool)).reshape(nt)
            if not np.array_equal(kb, rmask) or not np.allclose(rb[~kb], res[~rmask] + 1000.0, rtol=1e-9, atol=1e-6):
                out.viol("second_publication_differs", f"{spec['method']}: the same field shifted by a constant is not delivered shifted by that constant", spec=spec)
                return out
        if spec["seed"] % 3 == 0:
            # history: a second, fresh adapter between the same two grid objects must deliver the same field
            got2, _ = deliver(vals.copy())
            m2 = got2.magnitude
            r2 = np.ma.getdata(m2)[0].reshape(nt)
            k2 = (np.ma.getmaskarray(m2)[0] if np.ma.isMaskedArray(m2) else np.zeros(tshape, bool)).reshape(nt)
            out.count("second_adapter_on_the_same_grid_objects")
            if not np.array_equal(k2, rmask) or not np.allclose(r2[~k2], res[~rmask], rtol=1e-12, atol=1e-12):
                out.viol("second_adapter_differs", f"a second {spec['method']} adapter between the same grid objects delivers other values: first {res[~rmask][:4].tolist()}, second {r2[~k2][:4].tolist()}", spec=spec)
                return out
        if mt is not None and np.any(mt.ravel() & ~rmask):
            out.viol("target_mask_lost", "a masked target element came back unmasked", spec=spec)
            return out
        dist = np.linalg.norm(ct2[:, None, :] - cs2[None, unm_s, :], axis=2)  # (nt, n unmasked sources)
        dmin = dist.min(axis=1)
        src_vals = vals.reshape(ns)[unm_s]
        checked = 0
        tol = 1e-9 * extent
        if spec["src"].get("crs"):
            tol = max(tol, 1e-3)  # a millimetre for the round trip through the coordinate transformation
            out.count("pairs_with_different_reference_systems")
        if spec["method"] == "nearest":
            for e in range(nt):
                if mt is not None and mt.ravel()[e]:
                    continue
                if rmask[e]:
                    out.viol("unexpected_mask", f"unmasked target element {e} delivered masked", spec=spec)
                    return out
                j = np.flatnonzero(src_vals == res[e])
                if len(j) != 1:
                    out.viol("nearest_value", f"target element {e} (at {ct2[e].tolist()}) carries {res[e]}, which is not the value of any unmasked source location", spec=spec)
                    return out
                if dist[e, j[0]] > dmin[e] + tol:
                    out.viol("nearest_value", f"target element {e} at {ct2[e].tolist()} got the value of the source at distance {dist[e, j[0]]:.6g}, the nearest unmasked source is at {dmin[e]:.6g}", spec=spec)
                    return out
                checked += 1
            if spec["same_geometry"] and ms is None:
                out.count("identity_between_layouts_checked")
        else:
            tri = Delaunay(cs2[unm_s]) if dim > 1 else None
            if dim == 1:
                lo, hi = cs2[unm_s].min(), cs2[unm_s].max()
                inside = (ct2[:, 0] >= lo - tol) & (ct2[:, 0] <= hi + tol)
                near_edge = (np.abs(ct2[:, 0] - lo) < 1e-7 * extent) | (np.abs(ct2[:, 0] - hi) < 1e-7 * extent)
            else:
                inside = tri.find_simplex(ct2, tol=1e-12) >= 0
                # boundary band: compare with a slightly shrunk / inflated membership test
                c0 = cs2[unm_s].mean(axis=0)
                inside_in = tri.find_simplex(c0 + (ct2 - c0) * (1 + 1e-7)) >= 0
                inside_out = tri.find_simplex(c0 + (ct2 - c0) * (1 - 1e-7)) >= 0
                near_edge = inside_in != inside_out
            exp_aff = ct2 @ a + b
            scale = max(1.0, float(np.max(np.abs(exp_aff))))
            for e in range(nt):
                if mt is not None and mt.ravel()[e]:
                    continue
                if near_edge[e]:
                    out.notes.append("unconstrained: target location on the hull boundary")
                    continue
                if inside[e]:
                    if rmask[e]:
                        out.viol("inside_hull_masked", f"target element {e} at {ct2[e].tolist()} lies inside the hull of the unmasked sources but was masked", spec=spec)
                        return out
                    if abs(res[e] - exp_aff[e]) > 1e-9 * scale:
                        out.viol("affine_not_reproduced", f"target element {e} at {ct2[e].tolist()}: got {res[e]}, affine field gives {exp_aff[e]}", spec=spec)
                        return out
                    out.count("inside_hull_checked")
                else:
                    if spec["fill"]:
                        cand = src_vals[np.abs(dist[e] - dmin[e]) <= tol]
                        if rmask[e] or not np.any(np.abs(cand - res[e]) <= 1e-9 * scale):
                            out.viol("outside_hull_fill", f"target element {e} outside the hull: expected the nearest source value {cand.tolist()}, got {res[e]} (masked={bool(rmask[e])})", spec=spec)
                            return out
                        out.count("outside_hull_filled_checked")
                    else:
                        if not rmask[e]:
                            out.viol("outside_hull_not_masked", f"target element {e} at {ct2[e].tolist()} lies outside the hull but is unmasked ({res[e]})", spec=spec)
                            return out
                        out.count("outside_hull_masked_checked")
                checked += 1
        out.count("target_elements_checked", checked)
        if spec["src"].get("via_location_change") or spec["tgt"].get("via_location_change"):
            out.count("grids_with_changed_data_location")
        if ms is None and spec["method"] == "nearest" and spec["seed"] % 3 == 0 and ns > 2:
            # history: after plain data the same source delivers *masked* data although its metadata declares no mask:
            # the adapter documents that it refuses this (its indices were computed for the full grid)
            m2 = np.zeros(sshape, bool)
            m2.flat[0] = True
            try:
                got_first, inp = deliver(vals.copy())
                deliver.out.push_data(np.ma.array(vals.copy(), mask=m2), slots.t(10))
                got3 = inp.pull_data(slots.t(10))
                r3 = np.ma.getdata(got3.magnitude)[0].reshape(nt)
                # if it is served nevertheless, the values must still be those of nearest *unmasked* sources
                keep3 = ~m2.ravel()
                d3 = np.linalg.norm(ct2[:, None, :] - cs2[None, keep3, :], axis=2)
                sv3 = vals.reshape(ns)[keep3]
                for e in range(nt):
                    if mt is not None and mt.ravel()[e]:
                        continue
                    j = np.flatnonzero(sv3 == r3[e])
                    if len(j) != 1 or d3[e, j[0]] > d3[e].min() + tol:
                        out.viol("undeclared_mask_misplaces_values", f"masked data on a source without mask specification was regridded to wrong locations (target element {e})", spec=spec)
                        return out
            except fm.FinamDataError:
                out.count("undeclared_masked_data_refused")
        # poison: values under the source mask must not influence unmasked results
        if ms is not None and ms.any():
            poisoned = vals.copy()
            poisoned[ms] = 1e30
            got2, _ = deliver(poisoned)
            res2 = np.ma.getdata(got2.magnitude)[0].reshape(nt)
            rmask2 = (np.ma.getmaskarray(got2.magnitude)[0] if np.ma.isMaskedArray(got2.magnitude) else np.zeros(tshape, bool)).reshape(nt)
            if not np.array_equal(rmask, rmask2) or not np.allclose(res[~rmask], res2[~rmask2], rtol=1e-12, atol=0):
                out.viol("masked_source_influences_result", "replacing the values under the source mask by 1e30 changed unmasked results", spec=spec)
                return out
            out.count("poison_runs")
        if checked >= 4 and (not spec["same_geometry"] or spec["src"] != spec["tgt"]):
            out.key = repr((spec["method"], spec["src"], spec["tgt"], spec["smask"], spec["tmask"], spec["fill"]))
        for side, g in (("src", spec["src"]), ("tgt", spec["tgt"])):
            out.count(f"{side}_{g['kind']}" + ("_" + g["spec"]["cls"] if g["kind"] == "struct" else "") + ("_mixed" if g.get("mixed") else ""))
        out.count(f"dim_{dim}")
        return out

    def coverage_gaps(self, counters, tier):
        need = ["method_nearest", "method_linear", "target_elements_checked", "identity_between_layouts_checked", "inside_hull_checked",
                "outside_hull_masked_checked", "outside_hull_filled_checked", "poison_runs", "grids_with_changed_data_location", "undeclared_masked_data_refused", "dim_1", "dim_2", "dim_3",
                "sources_with_more_than_256_locations", "target_mask_given_to_the_adapter", "second_adapter_on_the_same_grid_objects", "second_publication_through_the_same_link", "pairs_with_different_reference_systems", "src_struct_uniform", "src_struct_rect", "src_struct_esri", "src_upoints", "src_ucells", "src_ucells_mixed", "tgt_struct_uniform", "tgt_upoints", "tgt_ucells"]
        return [f"{k} never observed" for k in need if not counters.get(k)]


PROP = C16()
