"""C20 - static slots are time independent; pull-based components are served on demand.

Three case kinds:
  static  - slot-level request sequences on static outputs/inputs against a one-value model; the
            number of fetches of a static input is observed at the source's public get_data.
  pull    - compositions producer(s) -> 1-2 chained pull-based components -> consumer(s): the call
            log of the provider callbacks (time asked, times pulled) is compared with the time the
            independent scheduling model says reaches the pull-based output; C01's monitors run
            through the pull-based components.
  wsum    - the shipped WeightedSum merger against an arithmetic reference, mixed compatible
            units, one and two consumers, repeated requests at one time.
"""
import logging

import numpy as np

import finam as fm

from .. import gen_coupling, harness, model_sched, sched_run, slots
from ..findings import predicate
from ..harness import H, T0, hrs
from ..record import REC, RefusalLog, install
from ..runner import Outcome, Property
from .c17 import o_convert


@predicate("pull_component_fanout_nonmonotone_requests")
def _f11(pid, spec, v):
    """a pull-based component serving >=2 time consumers issues non-monotone requests upstream under
    one registered end point; the producer evicts history that is requested later"""
    if pid not in ("C20", "C01") or not spec.get("fanout_pull"):
        return False
    # the refused request lies inside what the producer had published (the data existed and was evicted),
    # as observed by the recorder - not read from the wording of the exception
    return v.get("kind") in ("pull_failed_in_update", "run_failed", "wsum_run_failed") and v.get("where") == "inside_published_range"


class ValueProducer(fm.TimeComponent):
    """publishes value(t) = a + b*hours on nout outputs with given units"""

    def __init__(self, name, step, outs, static=()):
        super().__init__()
        self._name, self._step, self.outs, self.static = name, step, outs, set(static)
        self._time = T0

    def _next_time(self):
        return self.time + H(self._step)

    def _initialize(self):
        for k, (u, a, b) in enumerate(self.outs):
            if k in self.static:
                # a constant published once (static output of a time-stepped component)
                self.outputs.add(name=f"out{k}", time=None, grid=fm.NoGrid(), units=u, static=True)
            else:
                self.outputs.add(name=f"out{k}", time=self.time, grid=fm.NoGrid(), units=u)
        self.create_connector()

    def val(self, k, t):
        _u, a, b = self.outs[k]
        return a + b * hrs(t)

    def _connect(self, st):
        self.try_connect(st, push_data={f"out{k}": self.val(k, self.time) for k in range(len(self.outs))})

    def _validate(self):
        pass

    def _update(self):
        self._time = self._next_time()
        for k in range(len(self.outs)):
            if k not in self.static:
                self.outputs[f"out{k}"].push_data(self.val(k, self.time), self.time)

    def _finalize(self):
        pass


class C20(Property):
    id = "C20"
    anchors = ('finam.sdk.output:CallbackOutput.get_data', 'finam.components.mergers:WeightedSum._get_data', 'finam.schedule:Composition._update_recursive')
    technique = "one-value model for static slots with fetch counting at the source's public get_data; provider call-log monitor vs scheduling model for pull-based components; arithmetic reference for WeightedSum"
    rule = (
        "static: random request sequences (times incl. None, repeats) on static outputs with static and non-static inputs, repeated "
        "publications; pull: compositions where time-stepped consumers read through 1-2 chained pull-based components (eager/guarded, "
        "metadata from target or by rule) from producers with arbitrary step pairs, adapters on both sides, one consumer per pull-based "
        "output (and a separately classified fan-out class = known finding F11); wsum: WeightedSum with 1-3 value/weight pairs, mixed "
        "compatible units, 1-2 consumers, equal steps (repeated requests at one time). non-trivial = static sequence with >=3 requests at "
        ">=2 distinct times / pull composition with differing steps and >=1 served provider call / wsum with >=2 pairs or 2 consumers"
    )
    assumptions = (
        "WeightedSum producers publish on a grid that contains every consumer request time, so the nearest publication is exact",
    )
    cases = {"quick": 1800, "thorough": 200000}
    min_nontrivial = {"quick": 600, "thorough": 40000}

    def gen(self, rnd, i, tier):
        kind = ("static", "pull", "wsum")[i % 3]
        if kind == "static":
            reqs = [rnd.choice([None, 0, 1, 5, 100, -3, 7.5]) for _ in range(rnd.randint(3, 12))]
            return dict(kind=kind, reqs=reqs, static_chain=rnd.choice([0, 0, 1, 2]), static_input=rnd.random() < 0.6, payload=rnd.choice(["scalar", "grid"]),
                        repush_at=rnd.randint(0, len(reqs)), units=rnd.choice([["m", "m"], ["m", "km"], ["", "1"], ["degC", "K"]]),
                        push_time=rnd.choice([None, None, 3]), memory=rnd.choice([None, None, 0, 1000]), early_push=rnd.random() < 0.4)
        if kind == "pull":
            spec = gen_coupling.gen_dag(rnd, cycle=None, pull_prob=1.0, max_comps=4)
            fan = rnd.random() < 0.08
            spec["fanout_pull"] = False
            if fan:
                spec = self._fanout_spec(rnd)
            spec["kind"] = kind
            return spec
        if i % 15 == 2:
            # gridded inputs: the same geometry, possibly in two different layouts; merger with or without a grid of its own
            from .. import model_grid as mg

            g = mg.random_structured_spec(rnd, dim=2, classes=("uniform", "rect"), lens=(2, 3, 4))
            if rnd.random() < 0.5:
                g["dims"] = [g["dims"][0], g["dims"][0]]  # square: data shapes stay equal under a transposing layout
            lays = list(mg.layouts(2))
            la, lb = rnd.choice(lays), rnd.choice(lays)
            if rnd.random() < 0.3:
                lb = la
            return dict(kind="wsum_grid", a=dict(g, **la), b=dict(g, **lb), merger_grid=rnd.choice([None, None, "a", "b"]), end=rnd.choice([2, 4]))
        npairs = rnd.randint(1, 3)
        cstep = rnd.choice([1, 2, 3, 4, 6])
        pstep = rnd.choice([d for d in (1, 2, 3, 0.5) if (cstep / d) == int(cstep / d)])
        units = rnd.choice([["m", "m", "m"], ["m", "km", "cm"], ["mm/d", "m/s", "mm/d"], ["", "percent", "1"]])[:npairs]
        ncons = rnd.choice([1, 2, 2])
        cstep2 = cstep
        fan = False
        if ncons == 2 and rnd.random() < 0.35:
            # two consumers with different steps on one merger, slow producer: nearest-publication
            # semantics apply and requests at the merger are non-monotone (F11 class)
            cstep, cstep2, pstep, fan = rnd.choice([(1, 3, 6), (1, 2, 8), (2, 3, 12)]) + (True,)
        return dict(kind=kind, npairs=npairs, cstep=cstep, cstep2=cstep2, fanout_pull=fan, pstep=pstep, units=units, ncons=ncons, cons_units=rnd.choice([None, "same", "other"]),
                    coef=[[rnd.randint(1, 9), rnd.randint(0, 3), rnd.randint(1, 4), rnd.randint(0, 2)] for _ in range(npairs)], end=rnd.choice([6, 12, 18]),
                    order=rnd.sample(range(2 + 2), 4), initial_pull=rnd.random() < 0.6, static_weights=rnd.random() < 0.4)

    @staticmethod
    def _fanout_spec(rnd):
        s1, s2 = rnd.choice([(1, 7), (2, 5), (1, 3), (3, 8)])
        comps = [dict(name="c0", type="time", start=0, steps=[1], nin=0, nout=1, initial_pull=True),
                 dict(name="p0", type="pull", nin=1, nout=1, eager=True, info="target"),
                 dict(name="c1", type="time", start=0, steps=[s1], nin=1, nout=1, initial_pull=True),
                 dict(name="c2", type="time", start=0, steps=[s2], nin=1, nout=1, initial_pull=True)]
        links = [dict(src=["c0", 0], dst=["p0", 0], chain=[]), dict(src=["p0", 0], dst=["c1", 0], chain=[]), dict(src=["p0", 0], dst=["c2", 0], chain=[])]
        return dict(comps=comps, links=links, order=[0, 1, 2, 3], link_order=[0, 1, 2], start=0, end=30, fanout_pull=True,
                    meta=dict(n_time=3, cyclic=False, n_pull=1))

    def run(self, spec):
        out = Outcome()
        out.sample = spec
        getattr(self, "_" + spec["kind"])(out, spec)
        return out

    # ------------------------------------------------------------------ static slots
    def _static(self, out, spec):
        pu, cu = spec["units"]
        if spec["payload"] == "scalar":
            grid, val = fm.NoGrid(), np.array(3.25)
        else:
            grid, val = fm.UniformGrid((3, 2), data_location="POINTS"), np.arange(6, dtype=float).reshape(3, 2) + 0.5
        o = fm.Output(name="s", info=fm.Info(time=None, grid=grid, units=pu), static=True)
        inp = fm.Input(name="i", info=fm.Info(time=None, grid=grid, units=cu), static=spec["static_input"])
        calls = []
        orig = o.get_data

        def spy(time, target):
            calls.append(time)
            return orig(time, target)

        o.get_data = spy
        x = o
        for _ in range(spec.get("static_chain", 0)):
            x = x >> fm.adapters.Scale(1.0)  # adapters on a static link
        x >> inp
        if spec.get("static_chain"):
            out.count("static_links_through_adapters")
        if spec.get("memory") is not None:
            import os

            os.makedirs("spill-c20", exist_ok=True)
            o.memory_limit, o.memory_location = spec["memory"], "spill-c20"
            out.count("static_with_memory_limit")
        inp.ping()
        pt = None if spec["push_time"] is None else T0 + H(spec["push_time"])
        if spec.get("early_push"):
            # history: publications refused before the metadata exchange / with malformed data must not use up the single publication
            try:
                o.push_data(val.copy(), pt)
                out.viol("static_push_before_exchange_accepted", "static output accepted data before its info was exchanged", spec=spec)
                return
            except fm.FinamNoDataError:
                out.count("static_refused_early_publications")
        inp.exchange_info()
        if spec.get("early_push") and val.ndim:
            try:
                o.push_data(np.zeros(val.size + 3), pt)
                out.viol("static_malformed_accepted", "static output accepted data of the wrong size", spec=spec)
                return
            except fm.FinamDataError:
                out.count("static_refused_malformed_publications")
        try:
            o.push_data(val.copy(), pt)
        except fm.FinamStaticDataError as e:
            out.viol("static_first_publication_refused", f"the first valid publication of a static output was refused after earlier refused attempts: {e}", spec=spec)
            return
        out.count("static_publications")
        exp = o_convert(val, pu, cu)
        served = 0
        times = set()
        for k, r in enumerate(spec["reqs"]):
            if k == spec["repush_at"]:
                try:
                    o.push_data(val.copy() + 1.0, None)
                    out.viol("static_second_publication_accepted", "static output accepted a second publication", spec=spec)
                    return
                except fm.FinamStaticDataError:
                    out.count("static_republication_refused")
            t = None if r is None else T0 + H(r)
            got = inp.pull_data(t)
            served += 1
            times.add(r)
            data = np.asarray(got.magnitude)
            if data.shape != (1,) + val.shape or not np.allclose(data[0], exp, rtol=1e-12, atol=1e-12):
                out.viol("static_value_changed", f"request {k} at {r}: got {data.ravel()[:3].tolist()} expected {np.asarray(exp).ravel()[:3].tolist()}", spec=spec)
                return
            out.count("static_requests")
        if o.time is not None and not o.is_static:
            pass
        if spec["static_input"]:
            out.count("static_input_cases")
            if len(calls) != 1:
                out.viol("static_input_fetch_count", f"static input fetched {len(calls)} times for {served} requests", spec=spec)
                return
        elif len(calls) != served:
            out.viol("nonstatic_input_fetch_count", f"non-static input on a static output fetched {len(calls)} times for {served} requests", spec=spec)
            return
        if len(o.data) != 1:
            out.viol("static_history", f"static output holds {len(o.data)} entries", spec=spec)
        o.finalize()
        if served >= 3 and len(times) >= 2:
            out.key = "static:" + repr(sorted((k, repr(v)) for k, v in spec.items()))

    # ------------------------------------------------------------------ pull-based components
    def _pull(self, out, spec):
        install()
        provider_calls = []  # (output object, time)

        def on_cb(outp, time, target=None):
            provider_calls.append((outp, time))

        expected = []  # filled at update entry: (pull comp output, expected time)
        rep_holder = {}

        def on_update_entry(comp):
            b = rep_holder.get("b")
            if b is None or not isinstance(comp, fm.interfaces.ITimeComponent):
                return
            for inp in comp.inputs.values():
                o, need = model_sched.effective_request(inp, comp.next_time)
                if need is not None and isinstance(o, fm.CallbackOutput):
                    expected.append((o, need, comp.name, len(provider_calls)))

        rep = sched_run.run_spec(spec, listeners={"cb_get_data": on_cb, "update_entry": on_update_entry}, on_built=lambda b: rep_holder.__setitem__("b", b))
        out.count("pull_compositions")
        for f in rep.pull_failures:
            out.viol("pull_failed_in_update", f"{f['comp']}.{f['input']} pull at {f['t']}h through pull-based component(s) failed: {f['exc']}: {f['msg']}", spec=spec, witness=f, where=f.get("where"))
        for lk in rep.lacking_at_update:
            out.viol("updated_before_data_exists", f"update of {lk['comp']} while sources behind pull-based component lag: {lk['lacking']}", spec=spec)
        for u in rep.unjustified:
            out.viol("unjustified_update", f"update of {u['comp']} not justified: {u['reason']}", spec=spec)
        if rep.outcome != "ok":
            if not out.violations:
                out.viol("run_failed", f"{rep.phase} ended with {rep.outcome}: {rep.message[:200]}", spec=spec, trace=rep.trace, where=rep.refusals.last())
            return
        # provider invoked for exactly the requested time, pulling its own inputs for that same time
        idx = 0
        for (o, need, cname, pos) in expected:
            calls_after = [t for (oo, t) in provider_calls[pos:] if oo is o]
            out.count("provider_requests_expected")
            if need not in calls_after:
                out.viol("provider_time", f"consumer {cname}: pull-based output {o.name} should be asked for {hrs(need)}h (request after link delays); provider calls seen afterwards: {[hrs(t) for t in calls_after[:4]]}", spec=spec)
                return
            idx += 1
        nlogs = 0
        for pname, logs in rep.provider_logs.items():
            for (j, t, pulled) in logs:
                nlogs += 1
                if any(p != t for p in pulled):
                    out.viol("provider_input_time", f"{pname}.out{j} asked for {t}h pulled its inputs for {pulled}", spec=spec)
                    return
        out.count("provider_calls_checked", nlogs)
        steps = {tuple(c["steps"]) for c in spec["comps"] if c["type"] == "time"}
        if nlogs and len(steps) > 1:
            out.key = "pull:" + repr((sorted(steps), [(ln["src"][0][0], ln["dst"][0][0], tuple(a[0] for a in ln["chain"])) for ln in spec["links"]], spec["order"]))
        if sum(1 for c in spec["comps"] if c["type"] == "pull") >= 2:
            out.count("chained_pull_components")

    # ------------------------------------------------------------------ WeightedSum
    def _wsum(self, out, spec):
        n = spec["npairs"]
        names = [f"X{k}" for k in range(n)]
        outs = []
        for k in range(n):
            a, b, wa, wb = spec["coef"][k]
            outs.append((spec["units"][k], float(a), float(b)))
            outs.append(("", float(wa), float(wb) * 0.25))
        static = [2 * k + 1 for k in range(n) if spec.get("static_weights") and spec["coef"][k][3] == 0]  # constant weights as static outputs
        prod = ValueProducer("P", spec["pstep"], outs, static=static)
        if static:
            out.count("wsum_static_weight_outputs_of_a_time_component")
        ws = fm.components.WeightedSum(inputs=names)
        u0 = spec["units"][0]
        cu = {None: None, "same": u0, "other": {"m": "km", "mm/d": "m/s", "": "percent"}.get(u0, u0)}[spec["cons_units"]]
        received = {}

        class Cons(fm.TimeComponent):
            def __init__(self, name, step):
                super().__init__()
                self._name = name
                self._time = T0
                self._stp = step

            def _next_time(self):
                return self.time + H(self._stp)

            def _initialize(self):
                self.inputs.add(name="In", time=self.time, grid=fm.NoGrid(), units=cu)
                self.create_connector(pull_data=["In"] if spec.get("initial_pull", True) else [])

            def _connect(self, st):
                self.try_connect(st)

            def _validate(self):
                pass

            def _update(self):
                self._time = self._next_time()
                d = self.inputs["In"].pull_data(self.time)
                received.setdefault(self._name, []).append((hrs(self.time), float(np.asarray(d.magnitude).ravel()[0]), str(d.units)))

            def _finalize(self):
                pass

        cons = [Cons(f"B{k}", spec["cstep"] if k == 0 else spec.get("cstep2", spec["cstep"])) for k in range(spec["ncons"])]
        comps = [prod, ws] + cons
        order = [x for x in spec["order"] if x < len(comps)]
        comp = fm.Composition([comps[i] for i in order], print_log=False, log_level=logging.CRITICAL + 10)
        for k in range(n):
            prod.outputs[f"out{2 * k}"] >> ws.inputs[names[k]]
            prod.outputs[f"out{2 * k + 1}"] >> ws.inputs[names[k] + "_weight"]
        for c in cons:
            ws.outputs["WeightedSum"] >> c.inputs["In"]
        install()
        REC.reset()
        refusals = RefusalLog()
        try:
            comp.run(start_time=T0, end_time=T0 + H(spec["end"]))
        except Exception as e:  # pylint: disable=broad-except
            out.viol("wsum_run_failed", f"WeightedSum composition raised {type(e).__name__}: {e}", spec=spec, where=refusals.last())
            return
        finally:
            REC.reset()
        out.count("wsum_compositions")
        if not spec.get("initial_pull", True):
            out.count("wsum_consumers_without_connect_time_pull")
        for cname, series in received.items():
            for (t, got, units) in series:
                # producer publications nearest to t (both neighbours at an exact midpoint)
                ps = spec["pstep"]
                lo = (t // ps) * ps
                cands = [lo] if t == lo else ([lo] if t - lo < lo + ps - t else ([lo + ps] if t - lo > lo + ps - t else [lo, lo + ps]))
                tots = []
                for tp in cands:
                    tot = 0.0
                    for k in range(n):
                        a, b, wa, wb = spec["coef"][k]
                        v = o_convert(a + b * tp, spec["units"][k], u0)
                        tot += float(v) * (wa + wb * 0.25 * tp)
                    tots.append(tot)
                # delivered in the consumer's units, or (consumer units unset) in the units of one of
                # the inputs: compare physically, in the units of the first input
                try:
                    got0 = float(fm.UNITS.Quantity(got, units).to(u0).magnitude)
                except Exception as e:  # pylint: disable=broad-except
                    out.viol("wsum_units", f"{cname}: delivered units {units} not convertible to {u0}: {e}", spec=spec)
                    return
                if cu and fm.UNITS.Unit(units) != fm.UNITS.Unit(cu):
                    out.viol("wsum_units", f"{cname}: delivered units {units}, consumer declared {cu}", spec=spec)
                    return
                out.count("wsum_values_checked")
                if not any(np.isclose(got0, tot, rtol=1e-9, atol=1e-12) for tot in tots):
                    out.viol("wsum_value", f"{cname} at {t}h received {got} {units} = {got0} {u0}, sum of value*weight (producer publications at {cands}h) is {tots} {u0}", spec=spec)
                    return
        if not received:
            out.viol("wsum_nothing_received", "consumers received nothing", spec=spec)
            return
        if n >= 2 or spec["ncons"] == 2:
            out.key = "wsum:" + repr(sorted((k, repr(v)) for k, v in spec.items()))
        if spec["ncons"] == 2:
            out.count("wsum_two_consumers")
        if spec.get("fanout_pull"):
            out.count("wsum_consumers_with_different_steps")

    def _wsum_grid(self, out, spec):
        """value and weight fields on two layouts of one geometry: the merged field is either refused at connect time or carries
        sum(value*weight) at every physical location of the grid the consumer is told"""
        from .. import model_grid as mg

        ga, gb = mg.make_grid(spec["a"]), mg.make_grid(spec["b"])
        fa, fb = mg.located(spec["a"]), 2.0 * mg.located(spec["b"])  # physical fields f and 2f
        same_layout = ga == gb
        gen = fm.components.CallbackGenerator(
            callbacks={
                "A": (lambda t: fa.copy(), fm.Info(time=None, grid=ga, units="m")),
                "B": (lambda t: fb.copy(), fm.Info(time=None, grid=gb, units="m")),
                "wA": (lambda t: np.full(ga.data_shape, 0.25), fm.Info(time=None, grid=ga, units="")),
                "wB": (lambda t: np.full(gb.data_shape, 0.75), fm.Info(time=None, grid=gb, units="")),
            },
            start=T0, step=H(1))
        mgrid = {None: None, "a": ga, "b": gb}[spec["merger_grid"]]
        ws = fm.components.WeightedSum(inputs=["A", "B"], grid=mgrid)
        cons = fm.components.DebugConsumer(inputs={"In": fm.Info(time=None, grid=None, units=None)}, start=T0, step=H(1))
        comp = fm.Composition([gen, ws, cons], print_log=False, log_level=logging.CRITICAL + 10)
        gen.outputs["A"] >> ws.inputs["A"]
        gen.outputs["B"] >> ws.inputs["B"]
        gen.outputs["wA"] >> ws.inputs["A_weight"]
        gen.outputs["wB"] >> ws.inputs["B_weight"]
        ws.outputs["WeightedSum"] >> cons.inputs["In"]
        out.count("wsum_grid_compositions")
        try:
            comp.run(start_time=T0, end_time=T0 + H(spec["end"]))
        except fm.FinamMetaDataError as e:
            if same_layout or mgrid is not None:
                out.viol("wsum_grid_refused", f"WeightedSum refused inputs on {'equal grids' if same_layout else 'compatible grids although it has a grid of its own'}: {e}", spec=spec)
                return
            out.count("wsum_grid_different_layouts_refused")
            out.key = "wsum_grid:" + repr(sorted((k, repr(v)) for k, v in spec.items()))
            return
        except Exception as e:  # pylint: disable=broad-except
            out.viol("wsum_run_failed", f"gridded WeightedSum composition raised {type(e).__name__}: {e}", spec=spec)
            return
        told = cons.inputs["In"].info.grid
        got = np.asarray(np.ma.getdata(cons.data["In"].magnitude))[0]
        exp = [1.75 * mg.located(sp) for sp, g in ((spec["a"], ga), (spec["b"], gb)) if told == g]
        if not exp:
            out.viol("wsum_grid_layout", "the consumer was told a grid that is neither of the two source layouts nor the merger's", spec=spec)
            return
        out.count("wsum_grid_fields_checked")
        if not same_layout:
            out.count("wsum_grid_different_layouts_delivered")
        if got.shape != exp[0].shape or not np.allclose(got, exp[0], rtol=1e-12, atol=1e-9):
            out.viol("wsum_grid_value", f"merged field is not sum(value*weight) at the locations of the grid the consumer was told: got {got.ravel()[:6].tolist()}, "
                     f"expected {exp[0].ravel()[:6].tolist()}", spec=spec)
            return
        out.key = "wsum_grid:" + repr(sorted((k, repr(v)) for k, v in spec.items()))

    def coverage_gaps(self, counters, tier):
        need = ["wsum_grid_fields_checked", "wsum_grid_different_layouts_delivered", "static_requests", "static_links_through_adapters", "static_republication_refused", "static_input_cases", "pull_compositions", "provider_requests_expected",
                "provider_calls_checked", "chained_pull_components", "wsum_values_checked", "wsum_consumers_without_connect_time_pull", "wsum_static_weight_outputs_of_a_time_component", "wsum_two_consumers", "wsum_consumers_with_different_steps",
                "static_with_memory_limit", "static_refused_early_publications", "static_refused_malformed_publications"]
        return [f"{k} never observed" for k in need if not counters.get(k)]


PROP = C20()
