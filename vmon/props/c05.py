"""C05 - the coupling outcome is independent of listing and linking order.

Differential monitor: one spec is executed under all permutations of the component list (<= 4
components; 12 random ones beyond) with shuffled link-creation orders; the outcome tuples
(success / error class, exchanged metadata, final times, full received series per consumer input)
must be identical.
"""
import copy

from .. import gen_coupling, sched_run
from ..runner import Outcome, Property
from .c01 import shape_key


def outcome_tuple(spec, rep):
    infos = {}
    for name, comp in rep.built.comps.items():
        for iname, inp in comp.inputs.items():
            inf = inp.info
            infos[f"{name}.{iname}"] = None if inf is None else (repr(inf.grid), str(inf.units), repr(inf.mask), str(inf.time))
        for oname, o in comp.outputs.items():
            try:
                inf = o.info
                infos[f"{name}.{oname}"] = (repr(inf.grid), str(inf.units), repr(inf.mask), str(inf.time))
            except Exception:  # pylint: disable=broad-except
                infos[f"{name}.{oname}"] = None
    series = {f"{k[0]}.{k[1]}": [(t, round(v, 9), u) for (t, v, u) in vals] for k, vals in rep.received.items()}
    if rep.outcome != "ok":
        # after a failure only the error class (and phase) is compared: which items were already
        # exchanged when the error surfaced legitimately depends on the order
        return dict(outcome=rep.outcome, phase=rep.phase)
    return dict(outcome="ok", infos=infos, final=rep.final_time, series=series)


class C05(Property):
    id = "C05"
    anchors = ('finam.sdk.output:Output.get_info', 'finam.sdk.input:Input.exchange_info', 'finam.tools.connect_helper:ConnectHelper.connect')
    technique = "differential monitor: the same composition spec executed under all/many listing and link-order permutations, outcome tuples compared"
    rule = (
        "specs from the C01 generator restricted to the stated domain (producers declare grid and units, no DelayToPush), with ties (equal "
        "steps and times), fan-out, delay-resolved cycles, and at most one injected fault (unit conflict, grid conflict, missing initial "
        "data) so the expected error class is unique; all listing permutations for <=4 components (12 random beyond) x shuffled link orders. "
        "non-trivial = >=2 permutations of a spec with >=2 time components (or an injected fault) were run and compared (how many of them "
        "produced different update orders is reported as a counter, not required: scheduling may legitimately ignore the listing); "
        "distinct by shape key + fault"
    )
    assumptions = ("after a failing connect/run only the error class and phase are compared",)
    cases = {"quick": 300, "thorough": 20000}
    min_nontrivial = {"quick": 200, "thorough": 12000}

    def gen(self, rnd, i, tier):
        if i % 6 == 5:
            spec = gen_coupling.gen_two_way(rnd)
            spec["fault"] = None
            spec["perms"] = gen_coupling.permutations_of(spec, rnd, max_orders=24 if tier == "thorough" else 12)
            return spec
        if i % 6 == 2:
            # fan-out below a pass-through adapter next to a no-branch adapter on the same output: link creation order must not matter
            spec = gen_coupling.gen_branching(rnd)
            spec["fault"] = None
            spec["perms"] = gen_coupling.permutations_of(spec, rnd, max_orders=24 if tier == "thorough" else 12)
            return spec
        spec = gen_coupling.gen_dag(rnd, cycle="sufficient" if rnd.random() < 0.25 else None, max_comps=4 if rnd.random() < 0.8 else 5)
        for ln in spec["links"]:
            ln["chain"] = [a for a in ln["chain"] if a[0] != "dpush"]
        if rnd.random() < 0.3:  # ties
            tc = [c for c in spec["comps"] if c["type"] == "time"]
            st = tc[0]["steps"]
            for c in tc:
                if rnd.random() < 0.7:
                    c["steps"] = list(st)
                    c["start"] = 0
        # keep the twin-link class inside its domain (delay <= smallest consumer step) after the tie edit
        byname = {c["name"]: c for c in spec["comps"]}
        for ln in spec["links"]:
            if ln["src"][0].startswith("p") and len(ln["chain"]) == 1 and ln["chain"][0][0] == "dfix" and byname[ln["dst"][0]]["type"] == "time":
                if any(l2 is not ln and l2["src"][0] == ln["src"][0] and l2["dst"][0] == ln["dst"][0] for l2 in spec["links"]):
                    ln["chain"][0][1] = min(ln["chain"][0][1], min(byname[ln["dst"][0]]["steps"]))
        # initial state derived from pulled inputs: iterative connect with real data dependencies
        # (in cyclic specs this may form a genuine connect cycle: then every order must report it)
        for c in spec["comps"]:
            if c["type"] == "time" and c["nin"] and c.get("initial_pull") and rnd.random() < 0.5:
                c["push_deps"] = sorted(rnd.sample(range(c["nin"]), rnd.randint(1, c["nin"])))
        fault = None
        r = rnd.random()
        tc = [c for c in spec["comps"] if c["type"] == "time" and c["nin"] > 0]
        if r < 0.12 and tc:
            c = rnd.choice(tc)
            c["bad_input"] = [rnd.randrange(c["nin"]), "units"]
            fault = "units"
        elif r < 0.24 and tc:
            c = rnd.choice(tc)
            c["bad_input"] = [rnd.randrange(c["nin"]), "grid"]
            fault = "grid"
        elif r < 0.34:
            prods = [c for c in spec["comps"] if c["type"] == "time" and any(ln["src"][0] == c["name"] for ln in spec["links"])]
            if prods:
                rnd.choice(prods)["no_initial_push"] = True
                fault = "no_initial_data"
        spec["fault"] = fault
        perms = gen_coupling.permutations_of(spec, rnd, max_orders=24 if tier == "thorough" else 12)
        spec["perms"] = perms
        return spec

    def run(self, spec):
        out = Outcome()
        out.sample = {k: v for k, v in spec.items() if k != "perms"}
        ref = None
        orders_seen = set()
        for (order, link_order) in spec["perms"]:
            s2 = copy.deepcopy(spec)
            s2["order"], s2["link_order"] = order, link_order
            rep = sched_run.run_spec(s2, check_model=False)
            out.count("runs")
            if rep.outcome in ("StepCapExceeded", "RecursionError"):
                out.viol("hang", f"order {order}: {rep.outcome}", spec=s2)
                return out
            tup = outcome_tuple(s2, rep)
            orders_seen.add(tuple(rep.update_order))
            if ref is None:
                ref, ref_order = tup, (order, link_order)
                continue
            if tup != ref:
                diff = [k for k in set(tup) | set(ref) if tup.get(k) != ref.get(k)]
                detail = {k: (str(ref.get(k))[:160], str(tup.get(k))[:160]) for k in diff[:2]}
                out.viol("order_dependent_outcome", f"orders {ref_order} vs {(order, link_order)} differ in {diff}: {detail}; fault={spec['fault']}", spec=s2, other_order=ref_order)
                return out
        out.count("outcome_" + (ref["outcome"] if ref else "none"))
        out.count("fault_" + str(spec["fault"]))
        if len(orders_seen) >= 2:
            out.count("specs_with_order_sensitive_schedules")  # informational: an implementation may also schedule independently of the listing
        n_time = sum(1 for c in spec["comps"] if c["type"] == "time")
        if len(spec["perms"]) >= 2 and (n_time >= 2 or spec["fault"]):
            out.count("specs_run_in_several_orders")
            out.key = shape_key(spec) + str(spec["fault"])
        return out

    def coverage_gaps(self, counters, tier):
        need = ["runs", "specs_run_in_several_orders", "outcome_ok", "outcome_FinamMetaDataError", "outcome_FinamCircularCouplingError",
                "fault_units", "fault_grid", "fault_no_initial_data", "fault_None"]
        return [f"{k} never observed" for k in need if not counters.get(k)]


PROP = C05()
