"""C19 - composition validation rejects exactly the unworkable topologies.

Oracle: a reference predicate over the generated topology, written from the statement:
reject iff (unconnected input) or (static input fed by a non-static output) or (linked component
not listed, either side) or (fan-out at or downstream of a no-branch adapter) or (a pull-only
element followed downstream by an element that must be notified by pushes). The recorder counts
data/metadata exchange events before the error; after success the reported link list is compared
with the multiset of links the generator created.
"""
import logging

import finam as fm
from finam.adapters import DelayFixed, DelayToPull, DelayToPush, LinearTime, NextTime, Scale

from ..findings import predicate
from ..harness import H, T0
from ..record import REC, install
from ..runner import Outcome, Property

ADA = {
    "scale": lambda: Scale(1.0),
    "lin": LinearTime,      # push-based, no-branch
    "next": NextTime,       # push-based, no-branch
    "dfix": lambda: DelayFixed(H(1)),
    "dpull": lambda: DelayToPull(steps=1),  # no-branch
    "dpush": DelayToPush,   # relies on notifications (F19: does not declare it)
}
NO_BRANCH = ("lin", "next", "dpull")
NEEDS_PUSH = ("lin", "next")
RELIES_ON_NOTIFICATION = ("lin", "next", "dpush")


@predicate("delay_to_push_behind_pull_source_not_rejected")
def _f19(pid, spec, v):
    return pid == "C19" and v.get("kind") == "unworkable_accepted" and v.get("reasons") == ["dead_link_dpush"]


class Src(fm.TimeComponent):
    def __init__(self, name, outs):
        super().__init__()
        self._name, self.outs = name, outs
        self._time = T0

    def _next_time(self):
        return self.time + H(1)

    def _initialize(self):
        for k, kind in enumerate(self.outs):
            if kind == "pull":
                self.outputs.add(fm.CallbackOutput(callback=lambda c, t: 1.0, name=f"out{k}", time=self.time, grid=fm.NoGrid(), units=""))
            else:
                self.outputs.add(name=f"out{k}", static=(kind == "static"), time=None if kind == "static" else self.time, grid=fm.NoGrid(), units="")
        self.create_connector()

    def _connect(self, st):
        self.try_connect(st, push_data={f"out{k}": 1.0 for k, kind in enumerate(self.outs) if kind != "pull"})

    def _validate(self):
        pass

    def _update(self):
        self._time = self._next_time()
        for k, kind in enumerate(self.outs):
            if kind == "push":
                self.outputs[f"out{k}"].push_data(1.0, self.time)

    def _finalize(self):
        pass


class Dst(fm.TimeComponent):
    def __init__(self, name, ins):
        super().__init__()
        self._name, self.ins = name, ins
        self._time = T0

    def _next_time(self):
        return self.time + H(2)

    def _initialize(self):
        for k, kind in enumerate(self.ins):
            if kind in ("push", "push_static"):
                st = kind == "push_static"
                self.inputs.add(fm.CallbackInput(callback=lambda c, t: None, name=f"in{k}", static=st, time=None if st else self.time, grid=fm.NoGrid(), units=""))
            else:
                self.inputs.add(name=f"in{k}", static=(kind == "static"), time=None if kind == "static" else self.time, grid=fm.NoGrid(), units="")
        self.create_connector()

    def _connect(self, st):
        self.try_connect(st)

    def _validate(self):
        pass

    def _update(self):
        self._time = self._next_time()

    def _finalize(self):
        pass


def reference(spec):
    """list of reasons why the topology is unworkable (empty = must pass validation)"""
    reasons = []
    nodes = spec["nodes"]
    listed = set(spec["listed"])
    for nd in nodes:
        nd["parent"] = tuple(nd["parent"])
    for x in spec["inputs"]:
        x["parent"] = tuple(x["parent"]) if x["parent"] is not None else None

    def children(parent):
        kids = [("node", i) for i, nd in enumerate(nodes) if nd["parent"] == parent]
        kids += [("in", i) for i, x in enumerate(spec["inputs"]) if x["parent"] == parent]
        return kids

    for i, x in enumerate(spec["inputs"]):
        if x["parent"] is None:
            if x["comp"] in listed:
                reasons.append("unconnected_input")
            continue
        # path from input up to output
        path, p = [], x["parent"]
        while p[0] == "node":
            path.append(nodes[p[1]]["kind"])
            p = nodes[p[1]]["parent"]
        okind = spec["outputs"][p[1]]["kind"]
        src_listed = spec["outputs"][p[1]]["comp"] in listed
        dst_listed = x["comp"] in listed
        if dst_listed and x["kind"] in ("static", "push_static") and okind != "static":
            reasons.append("static_input_nonstatic_output")
        if src_listed != dst_listed:
            reasons.append("missing_component")
        if dst_listed or src_listed:
            # elements from the output down to the input
            elems = [("out", okind)] + [("ada", k) for k in reversed(path)] + [("in", x["kind"])]
            seen_pull = False
            for typ, k in elems:
                must_push = (typ == "ada" and k in NEEDS_PUSH) or (typ == "in" and k in ("push", "push_static"))
                relies = typ == "ada" and k == "dpush"
                if seen_pull and must_push and dst_listed:
                    reasons.append("dead_link")
                if seen_pull and relies and dst_listed:
                    reasons.append("dead_link_dpush")
                if (typ == "out" and k == "pull") or (typ == "in" and k in ("pull", "static")):
                    seen_pull = True
    # branching at or below a no-branch adapter (checked from listed components' outputs)
    for oi, o in enumerate(spec["outputs"]):
        if o["comp"] not in listed:
            continue
        stack = [(("out", oi), False)]
        while stack:
            parent, nb = stack.pop()
            if parent[0] == "node":
                nb = nb or nodes[parent[1]]["kind"] in NO_BRANCH
            kids = children(parent)
            if nb and len(kids) > 1:
                reasons.append("branching")
            for k in kids:
                if k[0] == "node":
                    stack.append((k, nb))
    return sorted(set(reasons))


class C19(Property):
    id = "C19"
    anchors = ('finam.schedule:Composition._validate_composition', 'finam.schedule:_check_dead_links', 'finam.schedule:_check_branching', 'finam.schedule:_check_missing_components', 'finam.schedule:_check_input_connected')
    technique = "reference predicate over generated link topologies vs exception class of connect(); recorder counts exchange events before the error; link-list multiset comparison after success"
    rule = (
        "one or two producers (push / pull-type / static outputs) and 1-3 consumers (pull / push-type / static inputs), adapter trees of depth "
        "0-4 with kinds {pass-through, push-based no-branch, no-branch delay, fixed delay, delay-to-push} and fan-outs at every position, "
        "unconnected inputs, producers or consumers missing from the composition list; chains always end in inputs. non-trivial = topology "
        "with >=1 adapter and (a fan-out or a rejection reason); distinct by canonical topology string"
    )
    assumptions = (
        "failures after validation (other exception classes) are not judged here, only counted",
        "below a static output only pass-through adapters are placed (time adapters on static data are outside the domain)",
    )
    cases = {"quick": 12000, "thorough": 1000000}
    min_nontrivial = {"quick": 4000, "thorough": 200000}

    def gen(self, rnd, i, tier):
        nprod = rnd.choice([1, 1, 2])
        ncons = rnd.randint(1, 3)
        comps = [f"P{k}" for k in range(nprod)] + [f"C{k}" for k in range(ncons)]
        outputs = []
        for k in range(nprod):
            static_prod = rnd.random() < 0.2  # outputs of one component share their start time: static ones get their own producer
            for _ in range(rnd.choice([1, 1, 2])):
                outputs.append(dict(comp=f"P{k}", kind="static" if static_prod else rnd.choice(["push", "push", "push", "pull"])))
        nodes, inputs = [], []
        for k in range(ncons):
            for _ in range(rnd.choice([1, 1, 2])):
                inputs.append(dict(comp=f"C{k}", kind=rnd.choice(["pull", "pull", "pull", "pull", "push", "static", "push_static"]), parent=None))
        for x in inputs:
            if rnd.random() < 0.06:
                # unconnected; sometimes an adapter already hangs on the input and another below an output,
                # only the piece in between is missing (added after the first refused connect)
                cands = [k for k, o in enumerate(outputs) if o["kind"] == "push"]
                if cands and rnd.random() < 0.6:
                    x["dangling"] = rnd.choice(cands)
                continue
            oi = rnd.randrange(len(outputs))
            parent = ("out", oi)
            is_static = outputs[oi]["kind"] == "static"
            # below a static output only pass-through adapters (time adapters on static data are outside the domain)
            depth = rnd.choice([0, 0, 1, 2]) if is_static else rnd.choice([0, 0, 1, 1, 2, 3, 4])
            if is_static and depth:
                x["static_chain"] = depth
            for _ in range(depth):
                # reuse an existing child adapter of this parent (-> fan-out deeper) or create one
                kids = [j for j, nd in enumerate(nodes) if nd["parent"] == parent]
                if kids and rnd.random() < 0.5:
                    parent = ("node", rnd.choice(kids))
                else:
                    nodes.append(dict(kind="scale" if is_static else rnd.choice(["scale", "scale", "lin", "next", "dfix", "dpull", "dpush"]), parent=parent))
                    parent = ("node", len(nodes) - 1)
            x["parent"] = parent
        listed = list(comps)
        if rnd.random() < 0.08:
            listed.remove(rnd.choice(comps))
        rnd.shuffle(listed)
        return dict(outputs=outputs, inputs=inputs, nodes=nodes, listed=listed, comps=comps)

    def run(self, spec):
        install()
        REC.reset()
        out = Outcome()
        out.sample = spec
        reasons = reference(spec)
        if any(x.get("static_chain") for x in spec["inputs"]):
            out.count("static_outputs_followed_by_adapters")
        prods, conss = {}, {}
        for name in spec["comps"]:
            if name.startswith("P"):
                prods[name] = Src(name, [o["kind"] for o in spec["outputs"] if o["comp"] == name])
            else:
                conss[name] = Dst(name, [x["kind"] for x in spec["inputs"] if x["comp"] == name])
        allc = {**prods, **conss}
        unlisted = [allc[n] for n in spec["comps"] if n not in spec["listed"]]
        for c in unlisted:
            c.initialize()
        composition = fm.Composition([allc[n] for n in spec["listed"]], print_log=False, log_level=logging.CRITICAL + 10)
        # slot objects
        outs = []
        cnt = {}
        for o in spec["outputs"]:
            k = cnt.get(o["comp"], 0)
            cnt[o["comp"]] = k + 1
            outs.append(prods[o["comp"]].outputs[f"out{k}"])
        ins = []
        cnt = {}
        for x in spec["inputs"]:
            k = cnt.get(x["comp"], 0)
            cnt[x["comp"]] = k + 1
            ins.append(conss[x["comp"]].inputs[f"in{k}"])
        ads = []
        expected_links = []

        def obj(p):
            return outs[p[1]] if p[0] == "out" else ads[p[1]]

        def lname(p):
            if p[0] == "out":
                o = spec["outputs"][p[1]]
                return ("component", o["comp"], outs[p[1]].name)
            return ("adapter", ads[p[1]].name, None)

        for j, nd in enumerate(spec["nodes"]):
            a = ADA[nd["kind"]]().with_name(f"a{j}_{nd['kind']}")
            obj(nd["parent"]) >> a
            ads.append(a)
        for j, nd in enumerate(spec["nodes"]):
            expected_links.append((lname(nd["parent"]), ("adapter", ads[j].name, None)))
        for i, x in enumerate(spec["inputs"]):
            if x["parent"] is not None:
                obj(x["parent"]) >> ins[i]
                expected_links.append((lname(x["parent"]), ("component", x["comp"], ins[i].name)))
        dangling = {}
        for i, x in enumerate(spec["inputs"]):
            if x["parent"] is None and x.get("dangling") is not None and x["comp"] in spec["listed"] and spec["outputs"][x["dangling"]]["comp"] in spec["listed"]:
                head = ADA["scale"]().with_name(f"head{i}")
                tail = ADA["scale"]().with_name(f"tail{i}")
                outs[x["dangling"]] >> head
                tail >> ins[i]
                dangling[i] = (head, tail)
        events = {"n": 0}

        def ev(*_a):
            events["n"] += 1

        for name in ("out_push_data", "out_get_data", "cb_get_data", "out_get_info", "ada_get_info", "ada_get_data", "in_pull_data"):
            REC.on(name, ev)
        try:
            composition.connect(T0)
            outcome = "ok"
        except fm.FinamConnectError as e:
            outcome, msg = "FinamConnectError", str(e)
        except Exception as e:  # pylint: disable=broad-except
            outcome, msg = type(e).__name__, str(e)
        finally:
            REC.reset()
        out.count("topologies")
        if reasons == ["unconnected_input"] and outcome == "FinamConnectError" and not events["n"] and spec.get("retry", True):
            # history: the user adds the forgotten link(s) - through a new adapter hanging below what exists - and connects again
            spec2 = dict(spec, inputs=[dict(x) for x in spec["inputs"]], nodes=[dict(nd) for nd in spec["nodes"]])
            for i, x in enumerate(spec2["inputs"]):
                if i in dangling:
                    head, tail = dangling[i]
                    mid = ADA["scale"]().with_name(f"mid{i}")
                    head >> mid >> tail
                    k = x["dangling"]
                    base = len(spec2["nodes"])
                    spec2["nodes"] += [dict(kind="scale", parent=("out", k)), dict(kind="scale", parent=("node", base)), dict(kind="scale", parent=("node", base + 1))]
                    ads.extend([head, mid, tail])
                    o = spec["outputs"][k]
                    expected_links += [(("component", o["comp"], outs[k].name), ("adapter", head.name, None)), (("adapter", head.name, None), ("adapter", mid.name, None)),
                                       (("adapter", mid.name, None), ("adapter", tail.name, None)), (("adapter", tail.name, None), ("component", x["comp"], ins[i].name))]
                    x["parent"] = ("node", base + 2)
                    out.count("dangling_adapters_completed_after_refusal")
                    continue
                if x["parent"] is None and x["comp"] in spec["listed"]:
                    cands = [("node", j) for j, nd in enumerate(spec2["nodes"]) if nd["kind"] in ("scale", "dfix")] or [("out", k) for k, o in enumerate(spec["outputs"]) if o["kind"] != "static"]
                    if not cands:
                        break
                    par = cands[i % len(cands)]
                    spec2["nodes"].append(dict(kind="scale", parent=par))
                    a = ADA["scale"]().with_name(f"a{len(spec2['nodes']) - 1}_scale")
                    obj(par) >> a
                    ads.append(a)
                    expected_links.append((lname(par), ("adapter", a.name, None)))
                    a >> ins[i]
                    x["parent"] = ("node", len(spec2["nodes"]) - 1)
                    expected_links.append((("adapter", a.name, None), ("component", x["comp"], ins[i].name)))
            if all(x["parent"] is not None or x["comp"] not in spec["listed"] for x in spec2["inputs"]):
                out.count("reconnect_attempts_after_refusal")
                spec, reasons = spec2, reference(spec2)
                try:
                    composition.connect(T0)
                    outcome = "ok"
                except fm.FinamConnectError as e:
                    outcome, msg = "FinamConnectError", str(e)
                except Exception as e:  # pylint: disable=broad-except
                    outcome, msg = type(e).__name__, str(e)
        if reasons:
            out.count("expected_rejections")
            for r in reasons:
                out.count("reason_" + r)
            if outcome != "FinamConnectError":
                out.viol("unworkable_accepted", f"reference predicate rejects ({reasons}) but connect() ended with {outcome}", spec=spec, reasons=reasons)
            elif events["n"]:
                out.viol("exchange_before_rejection", f"{events['n']} data/metadata exchange events happened before the connect error ({reasons})", spec=spec)
        else:
            out.count("expected_valid")
            if outcome == "FinamConnectError":
                out.viol("workable_rejected", f"reference predicate accepts the topology but connect() raised FinamConnectError: {msg[:200]}", spec=spec)
            elif outcome != "ok":
                out.notes.append(f"failed after validation: {outcome}")
                out.count("failed_after_validation")
            else:
                out.count("connected")
                links = composition.metadata["links"]

                def norm(side):
                    if "adapter" in side:
                        return ("adapter", side["adapter"].split("@")[0], None)
                    return ("component", side["component"].split("@")[0], side.get("output", side.get("input")))

                got = sorted((norm(ln["from"]), norm(ln["to"])) for ln in links)
                exp = sorted(e for e in expected_links if self._listed_link(e, spec))
                if got != exp:
                    out.viol("links_metadata", f"composition.metadata['links'] has {len(got)} entries {got[:3]}.. expected {len(exp)} {exp[:3]}..", spec=spec)
                out.count("link_lists_compared")
        fan = len({repr(x["parent"]) for x in spec["inputs"] if x["parent"]}) < sum(1 for x in spec["inputs"] if x["parent"]) or any(
            sum(1 for nd in spec["nodes"] if nd["parent"] == p) > 1 for p in [nd["parent"] for nd in spec["nodes"]])
        if spec["nodes"] and (fan or reasons):
            out.key = repr((spec["outputs"], spec["inputs"], spec["nodes"], sorted(spec["listed"]) != sorted(spec["comps"])))
        return out

    @staticmethod
    def _listed_link(e, spec):
        return True

    def coverage_gaps(self, counters, tier):
        need = ["expected_rejections", "expected_valid", "connected", "link_lists_compared", "reason_unconnected_input",
                "static_outputs_followed_by_adapters", "reason_static_input_nonstatic_output", "reason_missing_component", "reason_branching", "reason_dead_link", "reconnect_attempts_after_refusal", "dangling_adapters_completed_after_refusal"]
        return [f"{k} never observed" for k in need if not counters.get(k)]


PROP = C19()
