"""C12 - time integration adapters conserve the integral.

Exact oracle: piecewise integration (fractions.Fraction, integer-second times) of the linear or
step interpolant of the full publication history over [p0, p1]. A second real adapter on the same
output pulled on a coarser partition gives a model-free conservation check (sum over the fine
partition == value over the union).
"""
from fractions import Fraction as F

import numpy as np

import finam as fm
from finam.adapters import AvgOverTime, SumOverTime

from .. import slots
from ..model_slots import History
from ..runner import Outcome, Property
from .c17 import TABLE

UNITS = ["mm/d", "m/s", "kg m-2 s-1", "W/m2", "m", "mm", "", "m3/s", "kW"]


def make(kind, step, per_time, initial_interval=None):
    if kind == "avg":
        return AvgOverTime(step=step)
    if initial_interval:
        from datetime import timedelta

        return SumOverTime(step=step, per_time=per_time, initial_interval=timedelta(seconds=initial_interval))
    return SumOverTime(step=step, per_time=per_time)


class C12(Property):
    id = "C12"
    anchors = ('finam.adapters.time_integration:AvgOverTime._interpolate', 'finam.adapters.time_integration:SumOverTime._interpolate', 'finam.adapters.time_integration:SumOverTime._get_info')
    technique = "reference-model monitor: exact piecewise integrals (Fraction) of the linear/step interpolant vs pulls behind the real Avg/Sum adapters; two-partition conservation differential on the real code"
    rule = (
        "per case avg or sum (per-time or absolute), linear or step position in {0,.25,.5,.75,1,random}, a publication series with irregular "
        "integer-second gaps and a consumer partition finer, coarser or incommensurable with the source steps, plus a second adapter pulled on "
        "a coarser partition of the same period; non-trivial = >=3 judged pulls of which >=1 ends strictly inside a source interval and >=1 "
        "spans >=2 source intervals; distinct by (kind, step, per_time, units, time pattern)"
    )
    assumptions = (
        "only pulls with p0 < p1 are judged (the first pull at the first publication returns the documented initial value)",
        "results compared with relative tolerance 1e-9 (float arithmetic in the adapters)",
        "offset units (degC) are not integrated",
    )
    cases = {"quick": 4000, "thorough": 150000}
    min_nontrivial = {"quick": 1600, "thorough": 40000}

    def gen(self, rnd, i, tier):
        kind = rnd.choice(["avg", "sum", "sum"])
        step = rnd.choice([None, None, 0.0, 0.25, 0.5, 0.75, 1.0, round(rnd.random(), 3)])
        per_time = rnd.random() < 0.6
        src_step = rnd.choice([[3600], [86400], [7200, 3600], [5, 7, 3], [86400, 43200, 3600], [10], [60, 61], [129600], [90000, 200000]])
        base = src_step[0]
        cons_step = [max(1, int(f * base)) for f in rnd.choice([[0.25], [0.5], [1], [1.5], [2], [2.5], [3.3], [0.7], [0.4, 1.3], [2, 0.3], [7.0 / 3]])]
        total = rnd.choice([6, 10, 20]) * max(src_step)
        pubs, t = [[0, rnd.randint(0, 40)]], 0
        j = 0
        while t < total + 2 * max(src_step):
            t += src_step[j % len(src_step)]
            j += 1
            pubs.append([t, rnd.randint(0, 40)])
        pulls, t = [], 0
        j = 0
        while True:
            t += cons_step[j % len(cons_step)]
            j += 1
            if t > total or len(pulls) >= 60:
                break
            pulls.append(t)
        if len(pulls) < 2:
            pulls = [total // 3, 2 * total // 3, total]
        coarse = [x for k, x in enumerate(pulls) if k % 3 == 2 or k == len(pulls) - 1]
        return dict(kind=kind, step=step, per_time=per_time, units=rnd.choice(UNITS), pubs=pubs, pulls=pulls, coarse=coarse,
                    payload=rnd.choice(["scalar", "scalar", "grid"]), memory=rnd.choice([None, None, None, 0, 50]), rejects=rnd.random() < 0.4, initial_pull=rnd.random() < 0.65, ahead=rnd.choice([0, 0, 1, 2, 4]), initial_interval=rnd.choice([None, None, 3600, 86400, 129600]))

    def run(self, spec):
        import os

        out = Outcome()
        out.sample = dict(spec, pubs=spec["pubs"][:6], pulls=spec["pulls"][:6], coarse=spec["coarse"][:4])
        kind, step, per_time, u = spec["kind"], spec["step"], spec["per_time"], spec["units"]
        if spec["payload"] == "scalar":
            grid, w = fm.NoGrid(), np.array(1.0)
        else:
            grid = fm.UniformGrid((3, 3), data_location="POINTS")
            w = 1.0 + 0.25 * np.arange(9, dtype=float).reshape(3, 3)
        info = fm.Info(time=slots.T0, grid=grid, units=u)
        a1, a2 = make(kind, step, per_time, spec.get("initial_interval")), make(kind, step, per_time, spec.get("initial_interval"))
        o = fm.Output(name="out", info=info)
        i1 = fm.Input(name="fine", info=fm.Info(time=slots.T0, grid=grid, units=None))
        i2 = fm.Input(name="coarse", info=fm.Info(time=slots.T0, grid=grid, units=None))
        o >> a1 >> i1
        o >> a2 >> i2
        loc = None
        if spec.get("memory") is not None:
            loc = "spill-c12"
            os.makedirs(loc, exist_ok=True)
        for s in (o, a1, a2):
            s.memory_limit, s.memory_location = spec.get("memory"), loc
        i1.ping(); i2.ping()
        i1.exchange_info(); i2.exchange_info()
        try:
            self._drive(out, spec, o, i1, i2, w)
        finally:
            a1.finalize(); a2.finalize(); o.finalize()
        return out

    def _drive(self, out, spec, o, i1, i2, w):
        kind, step, per_time, u = spec["kind"], spec["step"], spec["per_time"], spec["units"]
        if spec.get("ahead"):
            out.count("sources_running_ahead")
        hist = History()
        pubs = list(spec["pubs"])
        pulls = [(t, "fine") for t in spec["pulls"]] + [(t, "coarse") for t in spec["coarse"]]
        pulls.sort(key=lambda x: (x[0], x[1] == "coarse"))
        pi = 0

        def publish_until(t):
            nonlocal pi
            # publish everything up to (and one beyond) t so the request is inside the published range
            ahead = spec.get("ahead", 0)  # the source may have run several publications ahead of the consumer
            while pi < len(pubs) and (pubs[max(0, pi - ahead)][0] <= t or (len(hist) and hist.newest < t) or not len(hist)):
                o.push_data(pubs[pi][1] * w, slots.t(pubs[pi][0]))
                hist.push(pubs[pi][0], F(pubs[pi][1]))
                pi += 1

        publish_until(0)
        if spec.get("initial_pull", True):
            # initial pulls at the first publication (not judged, documented initial value)
            g0 = i1.pull_data(slots.t(0))
            i2.pull_data(slots.t(0))
            if kind == "sum" and per_time and spec.get("initial_interval"):
                # documented initial value of a per-time sum: the first publication times the configured initial interval
                (dims0, f0, _x) = TABLE[u]
                want0 = float(hist.v[0]) * spec["initial_interval"] * f0 * w
                got0 = np.asarray(np.ma.getdata(g0.to_base_units().magnitude), dtype=float)[0]
                out.count("initial_interval_values_checked")
                if not np.allclose(got0, want0, rtol=1e-9, atol=1e-12 * max(1.0, float(np.max(np.abs(want0))))):
                    out.viol("initial_value", f"per-time sum with initial interval {spec['initial_interval']}s: first delivery {got0.ravel()[:2].tolist()} (SI) expected {np.asarray(want0).ravel()[:2].tolist()}", spec=spec)
                    return
        else:
            # consumers that do not pull while connecting: the first pull integrates from the first publication
            out.count("consumers_without_initial_pull")
        prev = {"fine": 0, "coarse": 0}
        acc_fine = F(0)
        acc_fine_real = 0.0
        judged = inside = spanning = 0
        fu, (dims, f_si, _o) = None, TABLE[u]
        npull = 0
        for t, who in pulls:
            publish_until(t)
            inp = i1 if who == "fine" else i2
            npull += 1
            if spec.get("rejects") and npull % 3 == 0:
                # a request beyond the newest publication must be refused and must leave no trace
                try:
                    inp.pull_data(slots.t(hist.newest + 1 + npull))
                    out.viol("extrapolation", f"{kind}: request beyond the newest publication ({hist.newest}s) was served", spec=spec)
                    return
                except fm.FinamTimeError:
                    out.count("out_of_range_refused")
            try:
                got = inp.pull_data(slots.t(t))
            except (fm.FinamTimeError, fm.FinamNoDataError) as e:
                out.viol("in_range_refused", f"{kind} pull at {t}s (prev {prev[who]}s) refused: {e}", spec=spec)
                return
            p0, p1 = prev[who], t
            prev[who] = t
            out.count("pulls_judged")
            judged += 1
            integ = hist.integral(p0, p1, step)  # value-seconds
            if kind == "avg":
                exp = integ / (p1 - p0)
                exp_si = float(exp) * f_si
                exp_dims = dims
            elif per_time:
                exp = integ
                exp_si = float(exp) * f_si
                exp_dims = (dims[0], dims[1], dims[2] + 1, dims[3], dims[4])
            else:
                exp = hist.weighted_sum(p0, p1, step)
                exp_si = float(exp) * f_si
                exp_dims = dims
            mag = np.asarray(np.ma.getdata(got.magnitude), dtype=float)
            if mag.shape != (1,) + np.shape(w):
                out.viol("shape", f"shape {mag.shape}", spec=spec)
                return
            base = got.to_base_units()
            got_si = np.asarray(np.ma.getdata(base.magnitude), dtype=float)[0]
            exp_arr = exp_si * w
            scale = max(1e-300, float(np.max(np.abs(exp_arr))), 1e-12 * f_si)
            if not np.allclose(got_si, exp_arr, rtol=1e-9, atol=1e-9 * scale):
                out.viol(
                    "integral",
                    f"{kind}(step={step}, per_time={per_time}) over [{p0},{p1}]s returned {got_si.ravel()[:2].tolist()} (SI), exact integral of the "
                    f"{'linear' if step is None else 'step'} interpolant gives {exp_arr.ravel()[:2].tolist()}; publications {[(a, float(b)) for a, b in zip(hist.t, hist.v)][:8]}",
                    spec=spec, p0=p0, p1=p1,
                )
                return
            # units: dimension = input (x time for per-time sums), label reduced, equals the exchanged info
            d = base.units.dimensionality
            gd = (int(d.get("[length]", 0)), int(d.get("[mass]", 0)), int(d.get("[time]", 0)), int(d.get("[temperature]", 0)), int(d.get("[substance]", 0)))
            if gd != tuple(exp_dims):
                out.viol("units_dimension", f"{kind} per_time={per_time}: delivered units {got.units} have dimension {gd}, expected {tuple(exp_dims)}", spec=spec)
                return
            if got.units != inp.info.units:
                out.viol("units_info", f"delivered units {got.units} differ from exchanged info units {inp.info.units}", spec=spec)
                return
            if kind == "sum" and per_time:
                red = fm.UNITS.Quantity(1.0, got.units).to_reduced_units().units
                if red != got.units:
                    out.viol("units_not_reduced", f"per-time sum units {got.units} are not reduced ({red})", spec=spec)
                    return
                # 'multiplied by time and reduced': the label is the reduced form of units x s (mm/d x s -> mm), or a spelling that converts 1 to 1
                want = (1.0 * fm.UNITS.Unit(u) * fm.UNITS.Unit("s")).to_reduced_units().units
                if abs(float(fm.UNITS.Quantity(1.0, got.units).to(want).magnitude) - 1.0) > 1e-12:
                    out.viol("units_label", f"per-time sum of data in {u!r} delivered in {got.units}, units x time reduced is {want}", spec=spec)
                    return
                out.count("per_time_unit_checks")
            if kind == "avg":
                lo, hi = hist.contributing_range(p0, p1)
                val = float(exp)
                g0 = got_si / (f_si * w)
                tol = 1e-9 * max(1.0, abs(float(hi)), abs(float(lo)))
                if np.any(g0 < float(lo) - tol) or np.any(g0 > float(hi) + tol):
                    out.viol("average_out_of_range", f"average {g0.ravel()[:2].tolist()} over [{p0},{p1}] outside contributing values [{float(lo)},{float(hi)}]", spec=spec)
                    return
                _ = val
                out.count("average_range_checks")
            # conservation across partitions (sum adapters): fine pieces add up to the coarse value
            if kind == "sum":
                if who == "fine":
                    acc_fine += exp
                    acc_fine_real += float(got_si.ravel()[0]) / float(w.ravel()[0])
                else:
                    out.count("partition_conservation_checks")
                    tol = 1e-8 * max(1.0, abs(acc_fine_real))
                    if abs(acc_fine_real - float(got_si.ravel()[0]) / float(w.ravel()[0])) > tol:
                        out.viol("partition_dependence", f"sum over the fine partition of [{p0},{p1}] = {acc_fine_real} but the coarse pull returned {float(got_si.ravel()[0])} (SI)", spec=spec)
                        return
                    acc_fine, acc_fine_real = F(0), 0.0
            # non-triviality classification
            i_end = hist.index_at_or_before(p1)
            if hist.t[i_end] != p1:
                inside += 1
            if hist.index_at_or_before(p1) - hist.index_at_or_before(p0) >= 2:
                spanning += 1
        out.count("kind_" + kind + ("_pt" if (kind == "sum" and per_time) else ""))
        out.count("mode_" + ("linear" if step is None else "step"))
        if judged >= 3 and inside >= 1 and spanning >= 1:
            out.key = repr((kind, step, per_time, u, spec["payload"], spec["pubs"][1][0], spec["pubs"][2][0], spec["pulls"][:3], [p[1] for p in spec["pubs"][:4]]))

    def coverage_gaps(self, counters, tier):
        need = ["pulls_judged", "out_of_range_refused", "per_time_unit_checks", "average_range_checks", "partition_conservation_checks", "kind_avg", "kind_sum", "kind_sum_pt",
                "mode_linear", "mode_step", "consumers_without_initial_pull", "sources_running_ahead", "initial_interval_values_checked"]
        return [f"{k} never observed" for k in need if not counters.get(k)]


PROP = C12()
