"""C11 - time interpolation adapters equal their mathematical definition.

A scripted consumer pulls behind NextTime / PreviousTime / LinearTime / StepTime(p) on a real
Output>>adapter>>Input chain; every result is compared with the definition evaluated exactly
(fractions.Fraction on integer-second times) on the *full* publication history, so an eviction
that changes a later result shows as a value mismatch.
"""
from fractions import Fraction as F

import numpy as np

import finam as fm
from finam.adapters import LinearTime, NextTime, PreviousTime, StepTime

from .. import slots
from ..model_slots import History
from ..runner import Outcome, Property

KINDS = ("next", "prev", "linear", "step")


def make_adapter(kind, p):
    return {"next": NextTime, "prev": PreviousTime, "linear": LinearTime, "step": lambda: StepTime(p)}[kind]()


class C11(Property):
    id = "C11"
    anchors = ('finam.adapters.time:TimeCachingAdapter._source_updated', 'finam.adapters.time:TimeCachingAdapter._get_data', 'finam.adapters.time:LinearTime._interpolate', 'finam.adapters.time:StepTime._interpolate', 'finam.adapters.time:NextTime._interpolate', 'finam.adapters.time:PreviousTime._interpolate')
    technique = "reference-model monitor: exact (Fraction) evaluation of the interpolant definitions on the full history vs pulls behind the real adapters"
    rule = (
        "per case one adapter kind (next/previous/linear/step with position in {0,.25,.5,.75,1,random}), scalar, gridded or masked gridded payload, "
        "strictly increasing publication times with irregular gaps, non-decreasing requests on/between/across several publications, plus "
        "requests beyond the newest and before the first publication; non-trivial = >=1 request strictly between publications after >=1 "
        "buffer eviction or across >=2 publications; distinct by (kind, p, payload, event pattern)"
    )
    assumptions = (
        "step interpolation exactly at the step position (|dt - step| < 1e-9) is unconstrained",
        "linear results compared with relative tolerance 1e-12, all other kinds exactly",
    )
    cases = {"quick": 8000, "thorough": 600000}
    min_nontrivial = {"quick": 3000, "thorough": 150000}

    def gen(self, rnd, i, tier):
        kind = KINDS[i % 4]
        p = rnd.choice([0.0, 0.25, 0.5, 0.75, 1.0, round(rnd.random(), 3)])
        payload = rnd.choice(["scalar", "scalar", "grid", "masked"])
        events = [["push", 0, rnd.randint(-50, 50)]]
        if rnd.random() < 0.3:
            events.append(["pull_future", rnd.choice([1, 5, 100])])  # only one publication buffered so far
        t = 0
        last = 0
        for _ in range(rnd.randint(6, 40)):
            r = rnd.random()
            if r < 0.4:
                t += rnd.choice([1, 2, 3, 4, 7, 10, 60, 3600, 86400])
                events.append(["push", t, rnd.randint(-50, 50)])
            elif r < 0.9:
                if last >= t:
                    tq = t
                else:
                    mode = rnd.random()
                    tq = t if mode < 0.15 else rnd.randint(last, t)
                last = tq
                events.append(["pull", tq])
                if tq == t and rnd.random() < 0.3:
                    events.append(["pull_future", t + rnd.choice([1, 5, 100])])  # right after a request on the newest publication
            elif r < 0.95:
                events.append(["pull_future", t + rnd.choice([1, 5, 100])])
            else:
                events.append(["pull_past", -rnd.choice([1, 5])])
        memory = rnd.choice([None, None, None, 0, 8, 100, 200])
        return dict(kind=kind, p=p, payload=payload, events=events, memory=memory, units=rnd.choice(["m", "m", "m", "degC", "", "mm/d"]),
                    sink=rnd.choice(["pull", "pull", "pull", "push"]), upstream=rnd.choice([None, None, "scale", "probe"]))

    def run(self, spec):
        out = Outcome()
        out.sample = spec
        kind, p = spec["kind"], spec["p"]
        if spec["payload"] == "scalar":
            grid, w, mask = fm.NoGrid(), np.array(1.0), fm.Mask.FLEX
        else:
            grid = fm.UniformGrid((3, 4), data_location="POINTS")
            w = 1.0 + 0.125 * np.arange(12, dtype=float).reshape(3, 4)
            mask = (np.arange(12).reshape(3, 4) % 5 == 0) if spec["payload"] == "masked" else fm.Mask.FLEX
        info = fm.Info(time=slots.T0, grid=grid, units=spec.get("units", "m"), mask=mask)
        ada = make_adapter(kind, p)
        import os

        loc = None
        if spec.get("memory") is not None:
            loc = "spill-c11"
            os.makedirs(loc, exist_ok=True)
            out.count("cases_with_memory_limit")
        if spec.get("sink") == "push":
            return self._push_sink(out, spec, info, ada, w, mask, loc)
        pre = []
        if spec.get("upstream"):
            # a pass-through adapter between the output and the time adapter: the time adapter's source is then an adapter
            pre = [fm.adapters.Scale(1.0) if spec["upstream"] == "scale" else fm.adapters.CallbackProbe(lambda d, t: None)]
            out.count("time_adapter_behind_another_adapter")
        o, (inp,) = slots.simple_link(info, info.copy_with(), adapters=pre + [ada], memory=spec.get("memory"), location=loc)
        try:
            return self._drive(out, spec, o, inp, ada, w, mask)
        finally:
            ada.finalize()
            o.finalize()

    def _push_sink(self, out, spec, info, ada, w, mask, loc):
        """a push-type consumer behind the adapter pulls the notified time inside its notification
        callback: at a publication time every interpolant returns that publication"""
        got = []

        def on_notify(caller, time):
            got.append((time, caller.pull_data(time)))

        o = fm.Output(name="out", info=info)
        sink = fm.CallbackInput(on_notify, name="sink", info=info.copy_with())
        slots.wire(o, [ada], [sink], spec.get("memory"), loc)
        sink.exchange_info()
        try:
            n = 0
            for ev in spec["events"]:
                if ev[0] != "push":
                    continue
                got.clear()
                try:
                    o.push_data(ev[2] * w, slots.t(ev[1]))
                except (fm.FinamNoDataError, fm.FinamTimeError) as e:
                    out.viol("pull_in_notification_refused", f"{spec['kind']}: pull for the notified time {ev[1]}s inside the notification failed: {type(e).__name__}: {e}", spec=spec)
                    return out
                out.count("publications")
                if len(got) != 1:
                    out.viol("notification_count", f"{len(got)} notifications for one publication", spec=spec)
                    return out
                data = np.ma.getdata(got[0][1].magnitude)[0]
                keep = ~mask if isinstance(mask, np.ndarray) else np.ones(np.shape(w), bool)
                exp = ev[2] * w
                if not np.allclose(data[keep], exp[keep], rtol=1e-12, atol=1e-12):
                    out.viol("value_at_publication_time", f"{spec['kind']}: pull at the just notified time {ev[1]}s returned {np.asarray(data).ravel()[:2].tolist()} instead of the publication {np.asarray(exp).ravel()[:2].tolist()}", spec=spec)
                    return out
                n += 1
                out.count("pulls_in_notification")
            if n >= 3:
                out.key = f"pushsink:{spec['kind']}:{spec['payload']}:{[e[1] for e in spec['events'] if e[0] == 'push'][:6]}"
            out.count("kind_" + spec["kind"])
            return out
        finally:
            ada.finalize()
            o.finalize()

    def _drive(self, out, spec, o, inp, ada, w, mask):
        kind, p = spec["kind"], spec["p"]
        hist = History()
        evicted = 0
        prev_len = 0
        nontrivial = False
        crossed = 0
        last_idx = 0
        for ev in spec["events"]:
            if ev[0] == "push":
                o.push_data(ev[2] * w, slots.t(ev[1]))
                hist.push(ev[1], F(ev[2]))
                out.count("publications")
                prev_len = len(ada.data)
                continue
            tq = ev[1]
            if ev[0] in ("pull_future", "pull_past"):
                try:
                    inp.pull_data(slots.t(tq))
                    out.viol("extrapolation", f"{kind}: request at {tq}s outside published range [{hist.oldest},{hist.newest}] was served", spec=spec)
                    return out
                except fm.FinamTimeError:
                    out.count("out_of_range_refused")
                continue
            try:
                got = inp.pull_data(slots.t(tq))
            except (fm.FinamTimeError, fm.FinamNoDataError) as e:
                out.viol("in_range_refused", f"{kind}: request at {tq}s within [{hist.oldest},{hist.newest}] refused: {e}", spec=spec)
                return out
            out.count("pulls_compared")
            if len(ada.data) < prev_len:
                evicted += 1
            prev_len = len(ada.data)
            boundary = False
            if kind == "next":
                e = hist.next_value(tq)
            elif kind == "prev":
                e = hist.prev_value(tq)
            elif kind == "linear":
                e = hist.linear(tq)
            else:
                e, boundary = hist.step(tq, p)
            if boundary:
                out.notes.append("unconstrained: request exactly on the step position")
                continue
            mag = got.magnitude
            exp = float(e) * w
            if np.shape(mag) != (1,) + np.shape(w):
                out.viol("shape", f"{kind}: shape {np.shape(mag)}", spec=spec)
                return out
            data = np.ma.getdata(mag)[0]
            keep = ~mask if isinstance(mask, np.ndarray) else np.ones(np.shape(w), bool)
            ok = np.allclose(data[keep], exp[keep], rtol=1e-12, atol=1e-12) if kind == "linear" else np.array_equal(data[keep], exp[keep])
            if not ok:
                i0 = hist.index_at_or_before(tq)
                ctx = list(zip(hist.t[max(0, i0 - 1): i0 + 3], [float(v) for v in hist.v[max(0, i0 - 1): i0 + 3]]))
                out.viol("value", f"{kind}(p={p}) at {tq}s returned {np.asarray(data).ravel()[:3].tolist()} expected {np.asarray(exp).ravel()[:3].tolist()} (publications around: {ctx}; buffer evictions so far {evicted})", spec=spec, t=tq)
                return out
            if isinstance(mask, np.ndarray) and not np.array_equal(np.ma.getmaskarray(mag)[0], mask):
                out.viol("mask", f"{kind}: mask changed by interpolation", spec=spec)
                return out
            if got.units != fm.UNITS.Unit(spec.get("units", "m")):
                out.viol("units", f"{kind}: units {got.units}", spec=spec)
                return out
            idx = hist.index_at_or_before(tq)
            on_pub = hist.t[idx] == tq
            if on_pub:
                out.count("pulls_on_publication")
            else:
                out.count("pulls_between_publications")
                if evicted or idx - last_idx >= 2:
                    nontrivial = True
            if idx - last_idx >= 2:
                crossed += 1
            last_idx = idx
        out.count("buffer_evictions", evicted)
        out.count("requests_across_several_publications", crossed)
        if nontrivial:
            pat = "".join(e[0][0] if e[0] == "push" else ("q" if e[0] == "pull" else "x") for e in spec["events"])
            out.key = f"{kind}:{p if kind == 'step' else ''}:{spec['payload']}:{pat}:{[e[1] for e in spec['events'][:6]]}"
        out.count("kind_" + kind)
        return out

    def coverage_gaps(self, counters, tier):
        need = ["publications", "pulls_compared", "pulls_on_publication", "pulls_between_publications", "buffer_evictions",
                "requests_across_several_publications", "out_of_range_refused", "pulls_in_notification", "time_adapter_behind_another_adapter"] + ["kind_" + k for k in KINDS]
        return [f"{k} never observed" for k in need if not counters.get(k)]


PROP = C11()
