"""C06 - iterative connect converges or reports exactly the stuck components.

Oracle: a least-fixpoint model of the documented connect protocol over the declared exchange
items of `ConnectNode` components (which inputs are pulled initially, which output infos/data
are derived from which inputs - explicitly and through FromInput/FromOutput transfer rules -,
which infos are provided stepwise). Compared with the real connect(): outcome, reported stuck
set, 'connected only when complete', 'progress reported exactly when something was exchanged',
iteration cap. A second case kind runs offset compositions with adapters on the links (initial
publications at composition start and at the producer's own start; initial pulls deliver the
producer's initial value).
"""
import logging
import re

import numpy as np

import finam as fm
from finam.tools.connect_helper import FromInput, FromOutput

from .. import gen_coupling, sched_run
from ..harness import H, T0, hrs
from ..runner import Outcome, Property

ST = fm.ComponentStatus


class ConnectNode(fm.TimeComponent):
    def __init__(self, name, spec):
        super().__init__()
        self._name, self.spec = name, spec
        self._time = T0
        self.calls = []  # (snapshot before, snapshot after, status after)
        self.pushed = {}

    def _next_time(self):
        return self.time + H(1)

    def _initialize(self):
        in_rules, out_rules = {}, {}
        for i in self.spec["ins"]:
            if i["info"] == "init":
                self.inputs.add(name=i["name"], time=self.time, grid=fm.NoGrid(), units=None)
            else:
                self.inputs.add(name=i["name"])
            if i["info"] == "rule_from_out":
                in_rules[i["name"]] = [FromOutput(i["src"])]
        for o in self.spec["outs"]:
            if o["info"] == "init":
                self.outputs.add(name=o["name"], time=self.time, grid=fm.NoGrid(), units="")
            else:
                self.outputs.add(name=o["name"])
            if o["info"] == "rule_from_in":
                out_rules[o["name"]] = [FromInput(o["src"])]
                if o.get("rule_meta"):
                    # a further rule adds a metadata field to what was taken from the input
                    out_rules[o["name"]].append(fm.tools.FromValue("origin", o["rule_meta"]))
        self.create_connector(pull_data=[i["name"] for i in self.spec["ins"] if i["pull"]], in_info_rules=in_rules, out_info_rules=out_rules)

    def snap(self):
        c = self.connector
        return (
            tuple(sorted(k for k, v in c.in_infos.items() if v is not None)),
            tuple(sorted(k for k, v in c.out_infos.items() if v is not None)),
            tuple(sorted(k for k, v in c.in_data.items() if v is not None)),
            tuple(sorted(k for k, v in c.infos_pushed.items() if v)),
            tuple(sorted(k for k, v in c.data_pushed.items() if v)),
        )

    def complete(self):
        c = self.connector
        return (all(v is not None for v in c.in_infos.values()) and all(v is not None for v in c.out_infos.values())
                and all(v is not None for v in c.in_data.values()) and all(c.infos_pushed.values()) and all(c.data_pushed.values()))

    def _connect(self, start_time):
        c = self.connector
        if len(self.calls) > self.spec.get("cap", 200):
            from ..harness import StepCapExceeded

            raise StepCapExceeded(f"{self.name}: more than {len(self.calls)} connect calls")
        before = self.snap()
        ex, pi, pd = {}, {}, {}
        for i in self.spec["ins"]:
            if i["info"] == "late" and c.in_infos[i["name"]] is None:
                if all(c.in_infos[d] is not None for d in i.get("after", [])):
                    ex[i["name"]] = fm.Info(time=self.time, grid=fm.NoGrid(), units=None)
        for o in self.spec["outs"]:
            if o["info"] == "from_in" and (not c.infos_pushed[o["name"]] or o.get("always_push_info")):
                src = c.in_infos[o["src"]]
                if src is not None:
                    pi[o["name"]] = src.copy_with(units="")
            if not c.data_pushed[o["name"]]:
                if all(c.in_data[d] is not None for d in o.get("data_deps", [])):
                    # "refine": the component hands over a refined version of its initial data on every call until it is published;
                    # the version of the publishing call is the one that counts
                    val = 1.0 + self.spec["idx"] * 100 + (0.001 * len(self.calls) if o.get("refine") else 0.0) + sum(float(np.asarray(c.in_data[d].magnitude).ravel()[0]) for d in o.get("data_deps", []))
                    pd[o["name"]] = val
                    self.pushed[o["name"]] = val
        self.try_connect(start_time, exchange_infos=ex, push_infos=pi, push_data=pd)
        self.calls.append((before, self.snap(), self.status, self.complete()))

    def _validate(self):
        pass

    def _update(self):
        self._time += H(1)

    def _finalize(self):
        pass


def gen_connect_spec(rnd):
    n = rnd.randint(2, 6)
    nodes = [dict(idx=c, ins=[], outs=[]) for c in range(n)]
    links = []
    for a in range(n):
        for k in range(rnd.choice([0, 1, 1, 2])):
            nodes[a]["outs"].append(dict(name=f"o{k}", info="init", data_deps=[], refine=rnd.random() < 0.35))
    for a in range(n):
        for o in nodes[a]["outs"]:
            for _ in range(rnd.choice([1, 1, 2])):
                b = rnd.choice([x for x in range(n) if x != a])
                iname = f"i{len(nodes[b]['ins'])}"
                nodes[b]["ins"].append(dict(name=iname, info=rnd.choice(["init", "init", "late"]), pull=rnd.random() < 0.6, after=[]))
                links.append([a, o["name"], b, iname])
    for b in range(n):
        ins, outs = nodes[b]["ins"], nodes[b]["outs"]
        for i in ins:
            if i["info"] == "late" and len(ins) > 1 and rnd.random() < 0.5:
                i["after"] = [rnd.choice([x["name"] for x in ins if x is not i])]
        for o in outs:
            if ins and rnd.random() < 0.4:
                o["info"] = rnd.choice(["from_in", "rule_from_in"])
                o["src"] = rnd.choice(ins)["name"]
                # some components pass their infos on every call (as the shipped readers do)
                o["always_push_info"] = o["info"] == "from_in" and rnd.random() < 0.5
                if o["info"] == "rule_from_in" and rnd.random() < 0.5:
                    o["rule_meta"] = f"derived-by-n{b}"
            pulls = [x["name"] for x in ins if x["pull"]]
            if pulls and rnd.random() < 0.5:
                o["data_deps"] = rnd.sample(pulls, k=rnd.randint(1, len(pulls)))
        for i in ins:
            if outs and rnd.random() < 0.1:
                cand = [o for o in outs if o["info"] == "init"]
                if cand:
                    i["info"] = "rule_from_out"
                    i["src"] = rnd.choice(cand)["name"]
                    i["after"] = []
    order = list(range(n))
    rnd.shuffle(order)
    return dict(kind="protocol", nodes=nodes, links=links, order=order)


def fixpoint(spec):
    """least fixpoint of the documented protocol -> (set of connected node indices, facts)"""
    nodes, links = spec["nodes"], spec["links"]
    src_of = {(b, i): (a, o) for (a, o, b, i) in links}
    targets = {}
    for (a, o, b, i) in links:
        targets.setdefault((a, o), []).append((b, i))
    facts = set()

    def add(f):
        if f not in facts:
            facts.add(f)
            return True
        return False

    changed = True
    while changed:
        changed = False
        for c, nd in enumerate(nodes):
            for o in nd["outs"]:
                key = (c, o["name"])
                if o["info"] == "init" or ("ex", c, o.get("src")) in facts:
                    changed |= add(("hasinfo",) + key)
                if ("hasinfo",) + key in facts and all(("ex", b, i) in facts for (b, i) in targets.get(key, [])):
                    changed |= add(("outinfo",) + key)
                if ("outinfo",) + key in facts and all(("pulled", c, d) in facts for d in o.get("data_deps", [])):
                    changed |= add(("pushed",) + key)
            for i in nd["ins"]:
                a, o = src_of[(c, i["name"])]
                if i["info"] == "init":
                    avail = True
                elif i["info"] == "late":
                    avail = all(("ex", c, d) in facts for d in i.get("after", []))
                else:
                    avail = ("outinfo", c, i["src"]) in facts
                if avail and ("hasinfo", a, o) in facts:
                    changed |= add(("ex", c, i["name"]))
                if i["pull"] and ("ex", c, i["name"]) in facts and ("pushed", a, o) in facts:
                    changed |= add(("pulled", c, i["name"]))
    conn = set()
    for c, nd in enumerate(nodes):
        ok = (all(("ex", c, i["name"]) in facts for i in nd["ins"]) and all((not i["pull"]) or ("pulled", c, i["name"]) in facts for i in nd["ins"])
              and all(("pushed", c, o["name"]) in facts for o in nd["outs"]))
        if ok:
            conn.add(c)
    return conn, facts


class C06(Property):
    id = "C06"
    anchors = ('finam.tools.connect_helper:ConnectHelper.connect', 'finam.schedule:Composition._connect_components', 'finam.tools.connect_helper:ConnectHelper._push_data')
    technique = "least-fixpoint reference model of the connect protocol vs the real iterative connect(): outcome, stuck set, per-call status vs growth of exchanged items, iteration cap; offset compositions for the double initial publication"
    rule = (
        "protocol cases: 2-6 ConnectNode components, 0-2 outputs each, 1-2 targets per output, initial pulls, info transfers input->output "
        "(explicit and FromInput rule), output->input (FromOutput rule), infos provided stepwise after other exchanges, data derived from "
        "pulled data, mutual dependencies (true cycles), random listing order; offset cases: C01-generator compositions with start "
        "offsets and 0-3 adapters per link, connect() only. non-trivial = >=2 connect iterations needed; distinct by spec hash"
    )
    assumptions = (
        "the first connect() call of each component is the ping phase by design and is exempt from the 'progress <=> growth' clause",
        "an uncertain-free domain: ConnectNode declares every exchange item, so the stuck set is well defined",
    )
    cases = {"quick": 2400, "thorough": 400000}
    min_nontrivial = {"quick": 1000, "thorough": 100000}

    def gen(self, rnd, i, tier):
        if i % 30 == 7:
            # late starter publishing gridded, partly masked initial data: both initial publications must carry it unchanged
            return dict(kind="masked_offset", own_start=rnd.choice([1, 2, 5]), mseed=rnd.randrange(1 << 30), order=rnd.sample(range(2), 2),
                        via=rnd.choice([None, None, "scale", "next"]), consumer_start=rnd.choice([0, 0, 1]))
        if i % 3 == 2:
            spec = gen_coupling.gen_dag(rnd, cycle=None, pull_prob=0.2, shipped=0.3)
            spec["kind"] = "offsets"
            # offsets matter here: force at least one late starter
            tc = [c for c in spec["comps"] if c["type"] == "time"]
            rnd.choice(tc)["start"] = rnd.choice([2, 3, 5])
            if min(c["start"] for c in tc) != 0:
                rnd.choice([c for c in tc])["start"] = 0
            for c in tc:
                if c["nin"] and c.get("initial_pull") and rnd.random() < 0.3:
                    c["push_deps"] = sorted(rnd.sample(range(c["nin"]), rnd.randint(1, c["nin"])))
                elif c["nin"] and c["nout"] and rnd.random() < 0.4:
                    # the outputs' metadata (and so their start time) is taken from what the first input exchanged
                    c["info_from_input"] = 0
            return spec
        return gen_connect_spec(rnd)

    def run(self, spec):
        out = Outcome()
        out.sample = spec
        if spec["kind"] == "offsets":
            self._offsets(out, spec)
        elif spec["kind"] == "masked_offset":
            self._masked_offset(out, spec)
        else:
            self._protocol(out, spec)
        return out

    def _masked_offset(self, out, spec):
        from ..record import REC, install

        rng = np.random.default_rng(spec["mseed"])
        grid = fm.UniformGrid((3, 4))
        mask = rng.random((2, 3)) < 0.4
        mask[0, 0], mask[1, 2] = True, False
        vals = np.arange(6.0).reshape(2, 3) + 10.0
        own = T0 + H(spec["own_start"])

        class Late(fm.TimeComponent):
            def __init__(self):
                super().__init__()
                self._time = own

            def _next_time(self):
                return self.time + H(1)

            def _initialize(self):
                self.outputs.add(name="o", time=self.time, grid=grid, units="m")
                self.create_connector()

            def _connect(self, st):
                self.try_connect(st, push_data={"o": np.ma.array(vals.copy(), mask=mask.copy())})

            def _validate(self):
                pass

            def _update(self):
                self._time = self._next_time()

            def _finalize(self):
                pass

        class Reader(fm.TimeComponent):
            def __init__(self):
                super().__init__()
                self._time = T0 + H(spec["consumer_start"])

            def _next_time(self):
                return self.time + H(1)

            def _initialize(self):
                self.inputs.add(name="i", time=self.time, grid=grid, units="m")
                self.create_connector(pull_data=["i"])

            def _connect(self, st):
                self.try_connect(st)

            def _validate(self):
                pass

            def _update(self):
                self._time = self._next_time()

            def _finalize(self):
                pass

        comps = [Late(), Reader()]
        composition = fm.Composition([comps[i] for i in spec["order"]], print_log=False, log_level=logging.CRITICAL + 10)
        x = comps[0].outputs["o"]
        if spec["via"]:
            x = x >> (fm.adapters.Scale(1.0) if spec["via"] == "scale" else fm.adapters.NextTime())
        x >> comps[1].inputs["i"]
        install()
        REC.reset()
        pushes = []
        REC.on("out_push_data", lambda o, data, time=None: pushes.append((time, np.ma.getdata(fm.data.get_magnitude(data) if fm.data.is_quantified(data) else data).copy(),
                                                                         np.ma.getmaskarray(fm.data.get_magnitude(data) if fm.data.is_quantified(data) else data).copy())))
        try:
            composition.connect(T0)
        except Exception as e:  # pylint: disable=broad-except
            out.viol("offset_connect_failed", f"connect() with a late starter publishing masked data raised {type(e).__name__}: {str(e)[:200]}", spec=spec)
            return
        finally:
            REC.reset()
        out.count("masked_late_starters")
        times = [t for t, _, _ in pushes]
        if sorted(times) != [T0, own]:
            out.viol("missing_publication_at_own_start", f"late starter published its initial data at {[hrs(t) for t in times]}, expected the composition start and its own start {hrs(own)}h", spec=spec)
            return
        for t, d, m in pushes:
            if not np.array_equal(m.reshape(mask.shape), mask) or not np.array_equal(d.reshape(vals.shape)[~mask], vals[~mask]):
                out.viol("initial_publication_altered", f"initial publication for {hrs(t)}h differs from the data the component handed over: mask {m.astype(int).tolist()} expected {mask.astype(int).tolist()}", spec=spec)
                return
        got = comps[1].connector.in_data["i"]
        gm = np.ma.getmaskarray(got.magnitude)[0]
        if not np.array_equal(gm, mask) or not np.allclose(np.ma.getdata(got.magnitude)[0][~mask], vals[~mask]):
            out.viol("initial_value", f"initial pull delivered mask {gm.astype(int).tolist()}, the producer's initial data has {mask.astype(int).tolist()}", spec=spec)
            return
        # what the output serves for its own start time is the initial data as well
        served = comps[0].outputs["o"].get_data(own, None) if not spec["via"] else None
        if served is not None and not np.array_equal(np.ma.getmaskarray(served.magnitude)[0], mask):
            out.viol("initial_publication_altered", f"data served for the producer's own start lost its mask", spec=spec)
            return
        out.key = "moff:" + repr(sorted((k, repr(v)) for k, v in spec.items()))

    def _protocol(self, out, spec):
        import hashlib

        items_total = sum(2 * len(nd["ins"]) + 3 * len(nd["outs"]) for nd in spec["nodes"])
        comps = [ConnectNode(f"n{c}", dict(nd, cap=items_total + 10)) for c, nd in enumerate(spec["nodes"])]
        composition = fm.Composition([comps[i] for i in spec["order"]], print_log=False, log_level=logging.CRITICAL + 10)
        for (a, o, b, i) in spec["links"]:
            comps[a].outputs[o] >> comps[b].inputs[i]
        exp_conn, _facts = fixpoint(spec)
        exp_stuck = {f"n{c}" for c in range(len(comps)) if c not in exp_conn}
        stuck = None
        try:
            composition.connect(T0)
            got = "ok"
        except fm.FinamCircularCouplingError as e:
            got = "circular"
            m = re.search(r"\[(.*)\]", str(e))
            stuck = {x.strip() for x in m.group(1).split(",") if x.strip()} if m else set()
        except Exception as e:  # pylint: disable=broad-except
            got = type(e).__name__ + ": " + str(e)[:150]
        except BaseException as e:  # pylint: disable=broad-except
            if type(e).__name__ != "StepCapExceeded":
                raise
            out.viol("connect_does_not_terminate", f"connect() keeps iterating without completing anything: {e}; model expected {'success' if not exp_stuck else 'stall of ' + str(sorted(exp_stuck))}", spec=spec)
            return
        out.count("protocol_cases")
        ncalls = max(len(c.calls) for c in comps)
        items = sum(2 * len(nd["ins"]) + 3 * len(nd["outs"]) for nd in spec["nodes"])
        if ncalls > items + 2:
            out.viol("too_many_iterations", f"{ncalls} connect iterations for {items} exchange items", spec=spec)
        if got not in ("ok", "circular"):
            out.viol("connect_other_error", f"connect() raised {got}; model expected {'success' if not exp_stuck else 'stall of ' + str(sorted(exp_stuck))}", spec=spec)
            return
        if got == "ok" and exp_stuck:
            out.viol("converged_but_model_stuck", f"connect() succeeded although {sorted(exp_stuck)} cannot complete per the protocol model", spec=spec)
        if got == "circular":
            out.count("stall_errors")
            if not exp_stuck:
                out.viol("false_stall", f"connect() reported a stall ({sorted(stuck)}) but the dependencies are acyclic: every item is derivable", spec=spec)
            elif stuck != exp_stuck:
                out.viol("wrong_stuck_set", f"reported unconnected components {sorted(stuck)}, model says exactly {sorted(exp_stuck)}", spec=spec)
            if len(exp_stuck) >= 2:
                out.count("stall_errors_with_2plus_stuck")
            if exp_conn:
                out.count("stall_errors_with_connected_bystanders")
        else:
            out.count("converged")
        for c in comps:
            for (before, after, st, complete) in c.calls:
                grew = after != before
                out.count("connect_calls_judged")
                if st == ST.CONNECTED and not complete:
                    out.viol("connected_while_outstanding", f"{c.name} reported CONNECTED with outstanding items: {after}", spec=spec)
                if st == ST.CONNECTING and not grew:
                    out.viol("progress_without_exchange", f"{c.name} reported CONNECTING but nothing new was exchanged ({after})", spec=spec)
                if st == ST.CONNECTING_IDLE and grew:
                    out.viol("exchange_without_progress", f"{c.name} reported CONNECTING_IDLE although items were exchanged: {before} -> {after}", spec=spec)
            if got == "ok" and c.status != ST.VALIDATED:
                out.viol("final_status", f"{c.name} status {c.status} after connect()", spec=spec)
        if got == "ok":
            # both ends of every link agree on the metadata that was exchanged (inputs here leave units to the source)
            for (a, o, b, i) in spec["links"]:
                iinfo, oinfo = comps[b].inputs[i].info, comps[a].outputs[o].info
                out.count("link_metadata_compared")
                if iinfo is None or iinfo.time is None or iinfo.grid is None or iinfo.units != oinfo.units:
                    out.viol("link_metadata_disagree", f"after connect n{b}.{i} has units {getattr(iinfo, 'units', None)} but its source n{a}.{o} delivers {oinfo.units}", spec=spec)
                elif {k: str(v) for k, v in iinfo.meta.items()} != {k: str(v) for k, v in oinfo.meta.items()}:
                    out.viol("link_metadata_disagree", f"after connect n{b}.{i} has metadata {iinfo.meta} but its source n{a}.{o} declares {oinfo.meta}", spec=spec)
            # every requested initial pull delivers the producer's initial value
            for (a, o, b, i) in spec["links"]:
                ispec = next(x for x in spec["nodes"][b]["ins"] if x["name"] == i)
                if ispec["pull"]:
                    d = comps[b].connector.in_data[i]
                    val = float(np.asarray(d.magnitude).ravel()[0])
                    out.count("initial_pulls_checked")
                    if val != comps[a].pushed.get(o):
                        out.viol("initial_value", f"n{b}.{i} received {val}, producer n{a}.{o} published {comps[a].pushed.get(o)}", spec=spec)
        out.count(f"iterations_{min(ncalls, 8)}")
        if ncalls >= 3:  # ping + >= 2 real iterations
            out.key = hashlib.md5(repr(spec).encode()).hexdigest()[:12]

    def _offsets(self, out, spec):
        pushes = {}  # output object -> publication times observed at the public push_data

        def on_push(o, data, time=None):
            pushes.setdefault(o, []).append(time)

        rep = sched_run.run_spec(spec, connect_only=True, check_model=False, listeners={"out_push_data": on_push})
        out.count("offset_cases")
        if rep.outcome != "ok":
            out.viol("offset_connect_failed", f"connect() of an acyclic composition with start offsets raised {rep.outcome}: {rep.message[:200]}", spec=spec, trace=rep.trace)
            return
        b = rep.built
        start = T0 + H(spec["start"])
        for c in spec["comps"]:
            if c["type"] != "time":
                continue
            comp = b.comps[c["name"]]
            own = T0 + H(c["start"])
            for oname, o in comp.outputs.items():
                if not o.has_targets:
                    continue
                times = pushes.get(o, [])
                out.count("initial_publications_checked")
                if own not in times:
                    out.viol("missing_publication_at_own_start", f"{c['name']}.{oname}: no initial publication at its own start {hrs(own)}h (published at {[hrs(t) for t in times]})", spec=spec)
                if c.get("info_from_input") is not None and own != start:
                    out.count("late_starters_with_output_time_taken_from_an_input")
                if own != start:
                    out.count("double_initial_publications_expected")
                    if start not in times:
                        out.viol("missing_publication_at_composition_start", f"{c['name']}.{oname}: no initial publication at the composition start (published at {[hrs(t) for t in times]})", spec=spec)
                if len(times) != len(set(times)) or len(times) > 2:
                    out.viol("repeated_initial_publication", f"{c['name']}.{oname}: initial publications at {[hrs(t) for t in times]}", spec=spec)
        # initial pulls deliver the producer's initial id (for chains that do not transform values)
        byname = {c["name"]: (k, c) for k, c in enumerate(spec["comps"])}
        for ln in spec["links"]:
            dst, (_di, dc) = b.comps[ln["dst"][0]], byname[ln["dst"][0]]
            if dc["type"] != "time" or not dc.get("initial_pull", True):
                continue
            (si, sc) = byname[ln["src"][0]]
            if sc["type"] != "time":
                continue
            if any(a[0] in ("scale2", "sum") for a in ln["chain"]):
                continue
            d = dst.connector.in_data.get(f"in{ln['dst'][1]}")
            if d is None:
                out.viol("initial_pull_missing", f"{ln['dst'][0]}.in{ln['dst'][1]} has no initial data after connect", spec=spec)
                continue
            val = float(np.asarray(d.magnitude).ravel()[0])
            out.count("initial_pulls_checked")
            # harness producers number their publications, shipped generators evaluate their callback at their own start time
            want = float(si * 1_000_000 + ln["src"][1] * 10_000) + (sc["start"] if sc.get("impl") == "shipped" else 0)
            if sc.get("impl") == "shipped" and sc["start"] != spec["start"]:
                out.count("late_starting_shipped_generators")
            if val != want:
                out.viol("initial_value", f"{ln['dst'][0]}.in{ln['dst'][1]} received {val} at connect, producer's initial value is {want}", spec=spec)
        import hashlib

        out.key = "off:" + hashlib.md5(repr(spec).encode()).hexdigest()[:12]

    def coverage_gaps(self, counters, tier):
        need = ["protocol_cases", "masked_late_starters", "late_starting_shipped_generators", "offset_cases", "late_starters_with_output_time_taken_from_an_input", "converged", "stall_errors", "stall_errors_with_2plus_stuck", "stall_errors_with_connected_bystanders",
                "connect_calls_judged", "initial_pulls_checked", "double_initial_publications_expected", "iterations_3", "iterations_5"]
        return [f"{k} never observed" for k in need if not counters.get(k)]


PROP = C06()
