"""C03 - a run terminates, reaches the end time, and walks each life cycle once.

Monitors: regular-expression monitor over every component's callback string, counters of
adapter finalisation, per-update snapshot (no update once everybody reached the end time),
final times/statuses, and the bounded-progress restatement of termination (logical step cap).
"""
import math
import re

import numpy as np

import finam as fm

from .. import gen_coupling, harness, sched_run
from ..findings import predicate
from ..runner import Outcome, Property
from .c01 import shape_key

LIFECYCLE = re.compile(r"^IC+VU*F$")


class Finisher(fm.ITimeComponent, fm.IComponent):
    """hand-written (non-SDK) time component that reports FINISHED after `n` updates, which the
    interface documentation of IComponent.update allows"""

    def __init__(self, n):
        self._n = n
        self._k = 0
        self._status = fm.ComponentStatus.CREATED
        self._time = harness.T0
        self.calls = []
        from finam.sdk.component import IOList, IOType

        self._inputs = IOList(self, IOType.INPUT)
        self._outputs = IOList(self, IOType.OUTPUT)

    name = "finisher"

    @property
    def inputs(self):
        return self._inputs

    @property
    def outputs(self):
        return self._outputs

    @property
    def status(self):
        return self._status

    @property
    def time(self):
        return self._time

    @property
    def next_time(self):
        return self._time + harness.H(1)

    @property
    def metadata(self):
        return {}

    def initialize(self):
        self.calls.append("I")
        self._status = fm.ComponentStatus.INITIALIZED

    def connect(self, start_time):
        self.calls.append("C")
        self._status = fm.ComponentStatus.CONNECTED

    def validate(self):
        self.calls.append("V")
        self._status = fm.ComponentStatus.VALIDATED

    def update(self):
        self.calls.append("U")
        self._k += 1
        self._time += harness.H(1)
        self._status = fm.ComponentStatus.FINISHED if self._k >= self._n else fm.ComponentStatus.UPDATED

    def finalize(self):
        self.calls.append("F")
        self._status = fm.ComponentStatus.FINALIZED


@predicate("finished_status_rejected_by_run_loop")
def _f12(pid, spec, v):
    return pid == "C03" and spec.get("finisher") is not None and v.get("kind") == "finisher_run_failed" and "FinamStatusError" in v.get("detail", "")


class C03(Property):
    id = "C03"
    anchors = ('finam.schedule:Composition.run', 'finam.schedule:Composition._check_status', 'finam.schedule:Composition._finalize_components')
    technique = "trace monitors on recorded life-cycle callbacks (regular expression), finalisation counters, per-update end-time snapshot, logical step cap (bounded progress)"
    rule = (
        "C01's composition generator (DAGs, delay-resolved cycles, pull-based components, adapter chains, orders) with end times on / just "
        "before / just after component grid points, end == start, end before a late starter's start, end far beyond; plus compositions "
        "without time components. non-trivial = >=2 time components with different steps and >=1 adapter; distinct by shape key + end time"
    )
    assumptions = (
        "termination is decided in logical steps: total updates <= sum_c ceil((end + D - start_c)/min_step_c) + |C| with D = sum of the largest steps and fixed delays",
        "harness components always advance their time in update(); 'time strictly increasing' is checked on what the driver observes",
    )
    cases = {"quick": 1000, "thorough": 100000}
    min_nontrivial = {"quick": 350, "thorough": 20000}

    def gen(self, rnd, i, tier):
        if i % 40 == 19:
            # parameter provider with static outputs feeding static and non-static inputs through 0-2 adapters each
            return dict(static_links=[dict(static_in=rnd.random() < 0.6, chain=rnd.randint(0, 2)) for _ in range(rnd.randint(1, 3))],
                        gen_step=rnd.choice([1, 2, 3]), cons_step=rnd.choice([1, 2, 5]), end=rnd.choice([0, 4, 7.5, 12]),
                        order=rnd.sample(range(3), 3), shared_output=rnd.random() < 0.5)
        if i % 40 == 29:
            # a shipped component that learns its start time only while connecting (TimeTrigger without start); run() does the connecting
            return dict(deferred=dict(gen_step=rnd.choice([1, 2, 3]), trig_step=rnd.choice([1, 2, 5]), linked_out=rnd.random() < 0.5, extra=rnd.random() < 0.5,
                                      explicit_connect=rnd.random() < 0.3), end=rnd.choice([4, 7.5, 12]), order=rnd.sample(range(4), 4))
        if i % 40 == 39:
            # composition without time components: pull-based component only
            return dict(comps=[dict(name="p0", type="pull", nin=0, nout=1, eager=True, info="target")], links=[], order=[0], link_order=[],
                        start=0, end=None, meta=dict(n_time=0, cyclic=False, n_pull=1))
        cyc = "sufficient" if rnd.random() < 0.3 else None
        spec = gen_coupling.gen_dag(rnd, cycle=cyc, shipped=0.0 if cyc else 0.25)
        if rnd.random() < 0.2:
            gen_coupling.with_user_adapters(spec, rnd, 0.4)
        tc = [c for c in spec["comps"] if c["type"] == "time"]
        c = rnd.choice(tc)
        k = rnd.randint(1, 6)
        grid_pt = c["start"] + sum(c["steps"][j % len(c["steps"])] for j in range(k))
        mode = rnd.choice(["on", "before", "after", "start", "late_start", "far", "keep"])
        spec["end_mode"] = mode
        if mode == "on":
            spec["end"] = grid_pt
        elif mode == "before":
            spec["end"] = grid_pt - 0.25
        elif mode == "after":
            spec["end"] = grid_pt + 0.25
        elif mode == "start":
            spec["end"] = 0
        elif mode == "late_start":
            spec["end"] = max(0.5, max(x["start"] for x in tc) - rnd.choice([0, 1]))
        elif mode == "far":
            spec["end"] = 150
        if i % 10 == 3 and spec["links"] and not spec.get("trunks"):
            # one link is 'forgotten': the first run is refused, the link is added and the composition is run again
            spec["defer_link"] = rnd.randrange(len(spec["links"]))
        return spec

    def run(self, spec):
        out = Outcome()
        out.sample = spec
        if spec.get("finisher") is not None:
            return self._run_finisher(out, spec)
        if spec.get("static_links") is not None:
            return self._run_static(out, spec)
        if spec.get("deferred") is not None:
            return self._run_deferred(out, spec)
        if spec["end"] is None:
            return self._run_no_time(out, spec)
        rep = sched_run.run_spec(spec, check_model=False)
        out.count("compositions")
        if spec.get("defer_link") is not None:
            out.count("runs_after_a_refused_first_attempt")
            if rep.first_attempt != "FinamConnectError":
                out.viol("forgotten_link_not_refused", f"first run with an unconnected input ended with {rep.first_attempt}", spec=spec)
        end = spec["end"]
        if rep.outcome == "StepCapExceeded":
            out.viol("no_termination", f"more updates than the harness cap: {rep.message}", spec=spec)
            return out
        if rep.outcome != "ok":
            if rep.outcome in ("RecursionError",):
                out.viol("no_termination", f"run ended with {rep.outcome}", spec=spec)
            else:
                # the generator only builds valid compositions: run() must return
                out.viol("run_did_not_return", f"{rep.phase} of a valid composition raised {rep.outcome}: {rep.message[:200]}", spec=spec, trace=rep.trace)
            return out
        tcs = [c for c in spec["comps"] if c["type"] == "time"]
        # bounded progress
        dsum = sum(max(c["steps"]) * c.get("publish_every", 1) for c in tcs) + sum(abs(a[1]) for ln in spec["links"] for a in ln["chain"] if a[0] == "dfix")  # look-ahead links (negative delay) also make the source run further
        # (a component that starts after end + D is never needed: its term is 0, not negative)
        bound = sum(max(0, math.ceil((end + dsum - c["start"]) / min(c["steps"]))) for c in tcs) + len(tcs) + 1
        if rep.n_updates > bound:
            out.viol("too_many_updates", f"{rep.n_updates} updates, bounded-progress cap {bound}", spec=spec)
        out.count("updates_observed", rep.n_updates)
        # reached end
        for name, t in rep.final_time.items():
            if t < end:
                out.viol("end_not_reached", f"{name} ended at {t}h < end {end}h", spec=spec)
        # no update once everybody reached the end (end after start)
        if end > spec["start"]:
            for u in rep.updates:
                if u["min_time"] >= end:
                    out.viol("update_after_end", f"update of {u['comp']} although every time component had reached {end}h (min time {u['min_time']}h)", spec=spec)
                    break
        else:
            out.count("end_equals_start_runs")
        # strictly increasing time per component, as logged at the driver's update calls
        last = {}
        for name, t0, t1 in rep.built.ctx.update_log:
            if not t1 > t0 or (name in last and not t0 >= last[name]):
                out.viol("time_not_increasing", f"{name}: {t0} -> {t1} (previous {last.get(name)})", spec=spec)
            last[name] = t1
        # life cycle of every component
        for name, calls in rep.calls.items():
            out.count("lifecycles_checked")
            if not LIFECYCLE.match(calls):
                out.viol("lifecycle_order", f"{name}: callback sequence {calls[:60]!r} does not match initialize connect+ validate update* finalize", spec=spec)
            if rep.status[name] != "FINALIZED":
                out.viol("final_status", f"{name} ended in state {rep.status[name]}", spec=spec)
        # adapters finalized exactly once
        for (li, pos, a, ada) in rep.built.adapters:
            n = rep.ada_finalize.get(id(ada), 0)
            out.count("adapter_finalize_checked")
            if n != 1:
                out.viol("adapter_finalize_count", f"adapter {a[0]} (link {li}, position {pos}) finalized {n} times", spec=spec)
        never = [c["name"] for c in tcs if "U" not in rep.calls[c["name"]]]
        if never:
            out.count("runs_with_never_updated_component")
        out.count("end_mode_" + spec.get("end_mode", "keep"))
        steps = {tuple(c["steps"]) for c in tcs}
        if len(tcs) >= 2 and len(steps) > 1 and any(ln["chain"] for ln in spec["links"]):
            out.key = shape_key(spec) + f"@{end}"
        return out

    def _run_no_time(self, out, spec):
        b = harness.build(spec)
        b.composition.run(end_time=None)
        out.count("compositions_without_time_components")
        for c in b.comps.values():
            if not re.match(r"^IC+VF$", "".join(c.calls)) or c.status != fm.ComponentStatus.FINALIZED:
                out.viol("lifecycle_order", f"{c.name}: {''.join(c.calls)} / {c.status}", spec=spec)
        return out

    def _run_static(self, out, spec):
        """static slots: life cycles, adapters on static links finalized exactly once"""
        import logging

        from ..record import REC, install

        T0, H = harness.T0, harness.H
        links = spec["static_links"]
        calls = {"P": [], "G": [], "C": []}
        got = {}

        class Params(fm.Component):
            def _initialize(self):
                calls["P"].append("I")
                for k in range(1 if spec["shared_output"] else len(links)):
                    self.outputs.add(name=f"par{k}", static=True, time=None, grid=fm.NoGrid(), units="m")
                self.create_connector()

            def _connect(self, st):
                calls["P"].append("C")
                self.try_connect(st, push_data={n: 21.0 + k for k, n in enumerate(self.outputs.names)})

            def _validate(self):
                calls["P"].append("V")

            def _update(self):
                calls["P"].append("U")

            def _finalize(self):
                calls["P"].append("F")

        class Gen(fm.TimeComponent):
            def __init__(self):
                super().__init__()
                self._time = T0

            def _next_time(self):
                return self.time + H(spec["gen_step"])

            def _initialize(self):
                calls["G"].append("I")
                self.outputs.add(name="out", time=self.time, grid=fm.NoGrid(), units="m")
                self.create_connector()

            def _connect(self, st):
                calls["G"].append("C")
                self.try_connect(st, push_data={"out": 0.0})

            def _validate(self):
                calls["G"].append("V")

            def _update(self):
                calls["G"].append("U")
                self._time = self._next_time()
                self.outputs["out"].push_data(harness.hrs(self.time), self.time)

            def _finalize(self):
                calls["G"].append("F")

        class Cons(fm.TimeComponent):
            def __init__(self):
                super().__init__()
                self._time = T0

            def _next_time(self):
                return self.time + H(spec["cons_step"])

            def _initialize(self):
                calls["C"].append("I")
                for k, ln in enumerate(links):
                    self.inputs.add(name=f"p{k}", static=ln["static_in"], time=None if ln["static_in"] else self.time, grid=fm.NoGrid(), units="m")
                self.inputs.add(name="in", time=self.time, grid=fm.NoGrid(), units="m")
                self.create_connector(pull_data=list(self.inputs.names))

            def _connect(self, st):
                calls["C"].append("C")
                self.try_connect(st)

            def _validate(self):
                calls["C"].append("V")

            def _update(self):
                calls["C"].append("U")
                self._time = self._next_time()
                for k in range(len(links)):
                    got.setdefault(k, []).append(float(np.asarray(self.inputs[f"p{k}"].pull_data(self.time).magnitude).ravel()[0]))
                self.inputs["in"].pull_data(self.time)

            def _finalize(self):
                calls["C"].append("F")

        comps = [Params(), Gen(), Cons()]
        composition = fm.Composition([comps[i] for i in spec["order"]], print_log=False, log_level=logging.CRITICAL + 10)
        adas = []
        for k, ln in enumerate(links):
            x = comps[0].outputs["par0" if spec["shared_output"] else f"par{k}"]
            for _ in range(ln["chain"]):
                a = fm.adapters.Scale(2.0)
                adas.append(a)
                x = x >> a
            x >> comps[2].inputs[f"p{k}"]
        tail = fm.adapters.Scale(1.0)
        adas.append(tail)
        comps[1].outputs["out"] >> tail >> comps[2].inputs["in"]
        install()
        REC.reset()
        fin = {}
        REC.on("ada_finalize", lambda a: fin.__setitem__(id(a), fin.get(id(a), 0) + 1))
        try:
            composition.run(start_time=T0, end_time=T0 + H(spec["end"]))
        except Exception as e:  # pylint: disable=broad-except
            out.viol("run_did_not_return", f"composition with static links raised {type(e).__name__}: {str(e)[:200]}", spec=spec)
            return out
        finally:
            REC.reset()
        out.count("compositions_with_static_links")
        for name, c in zip("PGC", comps):
            seq = "".join(calls[name])
            out.count("lifecycles_checked")
            if not LIFECYCLE.match(seq) or c.status != fm.ComponentStatus.FINALIZED:
                out.viol("lifecycle_order", f"{name}: callback sequence {seq[:60]!r} / final state {c.status}", spec=spec)
        for j, a in enumerate(adas):
            out.count("adapter_finalize_checked")
            out.count("static_link_adapters_checked" if j < len(adas) - 1 else "adapter_finalize_checked", 1 if j < len(adas) - 1 else 0)
            if fin.get(id(a), 0) != 1:
                out.viol("adapter_finalize_count", f"adapter {j} of {len(adas)} (links: {links}) finalized {fin.get(id(a), 0)} times", spec=spec)
        for k, ln in enumerate(links):
            want = (21.0 + (0 if spec["shared_output"] else k)) * 2.0 ** ln["chain"]
            if any(abs(v - want) > 1e-9 for v in got.get(k, [])):
                out.viol("static_value", f"static parameter {k} delivered {got[k][:3]} expected {want}", spec=spec)
        for t in (comps[1].time, comps[2].time):
            if t < T0 + H(spec["end"]):
                out.viol("end_not_reached", f"a component ended at {t}", spec=spec)
        if any(ln["chain"] and ln["static_in"] for ln in links):
            out.key = "static:" + repr((links, spec["gen_step"], spec["cons_step"], spec["end"], spec["order"], spec["shared_output"]))
        return out

    def _run_deferred(self, out, spec):
        import logging

        from ..record import REC, install

        T0, H = harness.T0, harness.H
        d = spec["deferred"]
        gen = fm.components.CallbackGenerator({"Out": (lambda t: harness.hrs(t), fm.Info(time=None, grid=fm.NoGrid(), units="m"))}, T0, H(d["gen_step"]))
        trig = fm.components.TimeTrigger(start=None, step=H(d["trig_step"]), in_info=fm.Info(time=None, grid=fm.NoGrid(), units=None))
        comps = [gen, trig]
        if d["linked_out"]:
            sink = fm.components.DebugPushConsumer({"In": fm.Info(time=None, grid=fm.NoGrid(), units=None)})
            comps.append(sink)
        if d["extra"]:
            other = fm.components.CallbackGenerator({"Out": (lambda t: 1.0, fm.Info(time=None, grid=fm.NoGrid(), units="m"))}, T0, H(3))
            comps.append(other)
        order = [k for k in spec["order"] if k < len(comps)]
        composition = fm.Composition([comps[k] for k in order], print_log=False, log_level=logging.CRITICAL + 10)
        gen.outputs["Out"] >> trig.inputs["In"]
        if d["linked_out"]:
            trig.outputs["Out"] >> sink.inputs["In"]
        install()
        REC.reset()
        life = {c: [] for c in comps}
        for ev, ch in (("connect_entry", "C"), ("validate_entry", "V"), ("update_entry", "U"), ("finalize_entry", "F")):
            REC.on(ev, lambda comp, *a, ch=ch: life[comp].append(ch) if comp in life else None)
        end = T0 + H(spec["end"])
        try:
            if d["explicit_connect"]:
                composition.connect(T0)
                composition.run(end_time=end)
            else:
                composition.run(end_time=end)  # no connect() before, no start time: run() finds it and connects
        except Exception as e:  # pylint: disable=broad-except
            out.viol("run_did_not_return", f"composition with a deferred-start TimeTrigger raised {type(e).__name__}: {str(e)[:200]}", spec=spec)
            return out
        finally:
            REC.reset()
        out.count("compositions_with_deferred_start_component")
        for c in comps:
            seq = "I" + "".join(life[c])
            out.count("lifecycles_checked")
            if not LIFECYCLE.match(seq) or c.status != fm.ComponentStatus.FINALIZED:
                out.viol("lifecycle_order", f"{c.name}: callback sequence {seq[:60]!r} / final state {c.status}", spec=spec)
            if isinstance(c, fm.interfaces.ITimeComponent) and (c.time is None or c.time < end):
                out.viol("end_not_reached", f"{c.name} ended at {c.time}, end time {end}", spec=spec)
        out.key = "deferred:" + repr(sorted((k, repr(v)) for k, v in spec.items()))
        return out

    def _run_finisher(self, out, spec):
        import logging

        f = Finisher(spec["finisher"])
        comp = fm.Composition([f], print_log=False, log_level=logging.CRITICAL + 10)
        try:
            comp.run(start_time=harness.T0, end_time=harness.T0 + harness.H(spec["end"]))
        except Exception as e:  # pylint: disable=broad-except
            out.viol("finisher_run_failed", f"run() with a component reporting FINISHED after {spec['finisher']} updates raised {type(e).__name__}: {e}", spec=spec)
            return out
        if "".join(f.calls)[-1] != "F":
            out.viol("lifecycle_order", f"finisher not finalized: {''.join(f.calls)}", spec=spec)
        return out

    def coverage_gaps(self, counters, tier):
        need = ["updates_observed", "lifecycles_checked", "adapter_finalize_checked", "end_equals_start_runs", "runs_with_never_updated_component",
                "compositions_without_time_components", "runs_after_a_refused_first_attempt", "compositions_with_static_links", "static_link_adapters_checked", "compositions_with_deferred_start_component"] + ["end_mode_" + m for m in ("on", "before", "after", "start", "late_start", "far")]
        gaps = [f"{k} never observed" for k in need if not counters.get(k)]
        if counters.get("aborted_runs", 0) > 0.05 * max(1, counters.get("compositions", 0)):
            gaps.append(f"{counters.get('aborted_runs')} of {counters.get('compositions')} runs aborted for reasons outside this property")
        return gaps


PROP = C03()
