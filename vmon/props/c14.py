"""C14 - grid index<->coordinate mapping consistent for every layout; shape/size/points follow
the current data location whatever was read or set before.

Oracle: closed-form coordinates from the constructor arguments (model_grid). The whole finite
configuration product is enumerated in the thorough tier.
"""
import itertools
import random

import numpy as np

import finam as fm
from finam.data.grid_tools import NODE_COUNT

from .. import model_grid as mg
from ..runner import Outcome, Property

LENS = (1, 2, 3, 4)


def _all_configs():
    cfgs = []
    for cls in ("uniform", "rect"):
        for dim in (1, 2, 3):
            for dims in itertools.product(LENS, repeat=dim):
                for order in "FC":
                    for rev in (False, True):
                        for inc in itertools.product((True, False), repeat=dim):
                            for loc in ("CELLS", "POINTS"):
                                cfgs.append(dict(cls=cls, dims=list(dims), order=order, reversed=rev, increase=list(inc), location=loc))
    for nc in LENS:
        for nr in LENS:
            for order in "FC":
                cfgs.append(dict(cls="esri", dims=[nc + 1, nr + 1], order=order, location="CELLS", reversed=True, increase=[True, False]))
    return cfgs


CONFIGS = _all_configs()
HISTORIES = {"quick": 500, "thorough": 200000}


def _close(a, b):
    a, b = np.asarray(a, dtype=float), np.asarray(b, dtype=float)
    return a.shape == b.shape and np.allclose(a, b, rtol=0, atol=1e-9)


class C14(Property):
    id = "C14"
    anchors = ('finam.data.grid_tools:gen_points', 'finam.data.grid_tools:gen_cells', 'finam.data.grid_tools:gen_node_centers', 'finam.data.grid_tools:point_order')
    technique = "reference-model monitor: closed-form coordinate oracle vs public grid properties over the enumerated configuration product; operation-history differential for data_shape/size/points"
    rule = (
        "configuration = class{uniform,rectilinear,esri} x dim 1-3 x axis lengths 1-4 x order x axes_reversed x per-axis direction x "
        "data location (%d configurations; thorough enumerates all, quick a seeded sample) plus random histories of reads/copies/"
        "data_location changes; non-trivial = more than one data element or a history with a location change; distinct by configuration/history key"
        % len(CONFIGS)
    )
    assumptions = (
        "numpy ravel/unravel semantics define 'flattening i in the grid's order'",
        "coordinates compared with absolute tolerance 1e-9",
    )
    cases = {"quick": 1500 + HISTORIES["quick"], "thorough": len(CONFIGS) + HISTORIES["thorough"]}
    min_nontrivial = {"quick": 1200, "thorough": len(CONFIGS) - 600}
    exhaustive = {"quick": False, "thorough": True}

    def gen(self, rnd, i, tier):
        nconf = 1500 if tier == "quick" else len(CONFIGS)
        if i < nconf:
            if tier == "quick":
                # seeded sample without replacement
                idx = random.Random(f"c14-sample-{rnd.random()}").randrange(len(CONFIGS))
                return dict(kind="config", cfg=CONFIGS[idx])
            return dict(kind="config", cfg=CONFIGS[i])
        cfg = dict(rnd.choice(CONFIGS))
        while cfg["cls"] == "esri":
            cfg = dict(rnd.choice(CONFIGS))
        if rnd.random() < 0.12:
            cfg = dict(rnd.choice([c for c in CONFIGS if c["cls"] == "esri"]))
        ops = []
        for _ in range(rnd.randint(3, 10)):
            ops.append(rnd.choice(["read_shape", "read_size", "read_points", "copy", "deepcopy", "set_cells", "set_points", "read_all", "to_unstructured", "cast_and_change"]))
        if cfg["cls"] == "esri":
            # a refused change to a location the class does not support, in the middle of the history
            ops.insert(rnd.randint(1, len(ops)), "set_points")
        return dict(kind="history", cfg=cfg, ops=ops)

    # ------------------------------------------------------------------ single configuration
    def check_config(self, out, cfg, grid=None, tag=""):
        s = mg.norm_spec(cfg)
        g = grid if grid is not None else mg.make_grid(cfg)
        dim = len(s["dims"])
        exp_shape = mg.data_shape(s)
        out.count("configs_checked")
        if tuple(int(x) for x in g.data_shape) != exp_shape:
            out.viol("data_shape", f"{tag}data_shape {tuple(g.data_shape)} expected {exp_shape}", cfg=cfg)
            return
        if int(g.data_size) != int(np.prod(exp_shape)):
            out.viol("data_size", f"{tag}data_size {g.data_size} expected {int(np.prod(exp_shape))}", cfg=cfg)
            return
        coords = mg.coord_arrays(s)  # xyz list in data shape
        vals = mg.data_axis_values(s)
        # data_axes (data-axis order)
        dax = g.data_axes
        for k in range(dim):
            a = dim - 1 - k if s["reversed"] else k
            if not _close(dax[k], vals[a]):
                out.viol("data_axes", f"{tag}data_axes[{k}]={np.asarray(dax[k]).tolist()} expected {vals[a].tolist()}", cfg=cfg)
                return
        # flattened data points vs index mapping
        pts = np.asarray(g.data_points, dtype=float)
        if pts.shape != (int(np.prod(exp_shape)), dim):
            out.viol("data_points_shape", f"{tag}data_points shape {pts.shape}", cfg=cfg)
            return
        for a in range(dim):
            got = pts[:, a].reshape(exp_shape, order=g.order)
            if not _close(got, coords[a]):
                bad = np.argwhere(~np.isclose(got, coords[a], atol=1e-9))[0]
                out.viol(
                    "index_coordinate",
                    f"{tag}element {tuple(bad.tolist())}: axis {a} data_points says {got[tuple(bad)]}, data_axes/constructor say {coords[a][tuple(bad)]}",
                    cfg=cfg,
                )
                return
        out.count("elements_checked", int(np.prod(exp_shape)))
        # cells: reference existing points, centre = mean of nodes, centres are the cell-located coordinates
        points = np.asarray(g.points, dtype=float)
        cells = np.asarray(g.cells)
        ctypes = np.asarray(g.cell_types)
        if len(cells) != int(g.cell_count) or len(ctypes) != len(cells):
            out.viol("cell_count", f"{tag}cells {cells.shape} types {ctypes.shape} cell_count {g.cell_count}", cfg=cfg)
            return
        if cells.min() < 0 or cells.max() >= len(points):
            out.viol("cell_reference", f"{tag}cell references point id {cells.max()} but only {len(points)} points", cfg=cfg)
            return
        centers = np.asarray(g.cell_centers, dtype=float)
        cs = dict(s, location="CELLS")
        ccoords = mg.coord_arrays(cs)
        cshape = mg.data_shape(cs)
        for c in range(len(cells)):
            nodes = points[cells[c][: NODE_COUNT[ctypes[c]]]]
            if not _close(nodes.mean(axis=0), centers[c]):
                out.viol("cell_center_mean", f"{tag}cell {c}: centre {centers[c].tolist()} != mean of nodes {nodes.mean(axis=0).tolist()}", cfg=cfg)
                return
        for a in range(dim):
            got = centers[:, a].reshape(cshape, order=g.order)
            if not _close(got, ccoords[a]):
                out.viol("cell_center_position", f"{tag}cell centres along axis {a} not at the cell-located coordinates", cfg=cfg)
                return
        # every cell is a proper box: node set spans exactly its extent
        bax = [np.asarray(ax, dtype=float) for ax in mg.base_axes(s)]
        for c in range(len(cells)):
            nodes = points[cells[c][: NODE_COUNT[ctypes[c]]]]
            for a in range(dim):
                if len(bax[a]) == 1:
                    continue
                lo, hi = nodes[:, a].min(), nodes[:, a].max()
                j = np.searchsorted(bax[a], centers[c, a]) - 1
                if not (abs(lo - bax[a][j]) < 1e-9 and abs(hi - bax[a][j + 1]) < 1e-9):
                    out.viol("cell_nodes", f"{tag}cell {c} axis {a}: nodes span [{lo},{hi}] expected [{bax[a][j]},{bax[a][j+1]}]", cfg=cfg)
                    return
            if len({tuple(np.round(n, 9)) for n in nodes}) != len(nodes):
                out.viol("cell_nodes", f"{tag}cell {c} has duplicate nodes", cfg=cfg)
                return
        out.count("cells_checked", len(cells))
        # unstructured cast preserves everything
        u = g.to_unstructured()
        ok = (
            _close(u.points, points) and np.array_equal(np.asarray(u.cells), cells) and np.array_equal(np.asarray(u.cell_types), ctypes)
            and _close(u.data_points, pts) and _close(u.cell_centers, centers) and u.data_location == g.data_location
            and tuple(u.data_shape) == (int(np.prod(exp_shape)),) and u.order == g.order
        )
        if not ok:
            out.viol("to_unstructured", f"{tag}to_unstructured() changed points/cells/centres/data points", cfg=cfg)
            return
        out.count("unstructured_casts")

    # ------------------------------------------------------------------ operation histories
    def check_history(self, out, spec):
        """operations act on a randomly chosen live grid (the original or one of its copies); after
        every step ALL live grids must still reflect their own current data location"""
        import random

        cfg = dict(spec["cfg"])
        rnd = random.Random(repr(spec["ops"]))
        live = [[mg.make_grid(cfg), dict(cfg)]]
        changed = 0
        for step, op in enumerate(spec["ops"]):
            k = rnd.randrange(len(live))
            g, cur = live[k]
            if op == "read_shape":
                _ = g.data_shape
            elif op == "read_size":
                _ = g.data_size
            elif op == "read_points":
                _ = g.data_points
            elif op == "read_all":
                _ = (g.data_shape, g.data_size, g.data_axes)
            elif op in ("copy", "deepcopy"):
                live.append([g.copy(deep=(op == "deepcopy")), dict(cur)])
                out.count("grid_copies")
            elif op == "to_unstructured":
                _ = g.to_unstructured()
            elif op == "cast_and_change":
                # the cast is an object of its own: changing it must not reach the grid it was made from (or later casts)
                u = g.to_unstructured()
                u.data_location = "POINTS" if cur["location"] == "CELLS" else "CELLS"
                out.count("casts_changed_afterwards")
            elif op in ("set_cells", "set_points"):
                loc = "CELLS" if op == "set_cells" else "POINTS"
                if cur["cls"] == "esri" and loc == "POINTS":
                    try:
                        g.data_location = loc
                        out.viol("location_check", "EsriGrid accepted POINTS data location", cfg=cfg)
                        return 0
                    except ValueError:
                        out.count("invalid_location_refused")
                        if str(g.data_location).rsplit(".", maxsplit=1)[-1] != cur["location"]:
                            out.viol("refused_location_change_took_effect", f"after the refused change the grid reports data_location {g.data_location}", cfg=cfg)
                            return 0
                        continue
                changed += cur["location"] != loc
                g.data_location = loc
                cur["location"] = loc
            for j, (gg, cc) in enumerate(live):
                exp_shape = mg.data_shape(cc)
                n = int(np.prod(exp_shape))
                got = (tuple(int(x) for x in gg.data_shape), int(gg.data_size), len(gg.data_points))
                out.count("history_steps")
                if got != (exp_shape, n, n):
                    out.viol(
                        "stale_after_history",
                        f"after ops {spec['ops'][: step + 1]} (op applied to grid #{k}; grid #{j} has location {cc['location']}): "
                        f"data_shape/data_size/len(data_points) = {got}, expected {(exp_shape, n, n)}",
                        cfg=cfg, ops=spec["ops"][: step + 1],
                    )
                    return 0
        for gg, cc in live[:3]:
            self.check_config(out, cc, grid=gg, tag=f"after history {spec['ops']}: ")
        if changed:
            out.count("histories_with_location_change")
        if len(live) > 1 and changed:
            out.count("histories_with_copies_and_location_change")
        return changed

    def run(self, spec):
        out = Outcome()
        cfg = spec["cfg"]
        if spec["kind"] == "config":
            self.check_config(out, cfg)
            if int(np.prod(mg.data_shape(cfg))) > 1:
                out.key = "cfg:" + repr(sorted(cfg.items()))
        else:
            changed = self.check_history(out, spec)
            if changed:
                out.key = "hist:" + repr(sorted(cfg.items())) + repr(spec["ops"])
        out.sample = spec
        return out

    def coverage_gaps(self, counters, tier):
        need = ["configs_checked", "elements_checked", "cells_checked", "unstructured_casts", "history_steps", "histories_with_location_change", "histories_with_copies_and_location_change", "invalid_location_refused", "casts_changed_afterwards"]
        return [f"{k} never observed" for k in need if not counters.get(k)]


PROP = C14()
