"""C08 - data crossing a link keeps its values, time, units and shape.

Slot-level histories on a real Output>>Input link. Oracle: nearest-publication model over the
full history (either neighbour at the midpoint), unit conversion from the hand-written
dimensional table of C17, located-value encoding for gridded payloads and masks (a misplaced
element or mask bit is visible, not only a wrong multiset of values).
"""
import numpy as np

import finam as fm

from .. import model_grid as mg
from .. import slots
from ..model_slots import History
from ..runner import Outcome, Property
from .c17 import o_convert

STEP = 1.0e8  # publication k adds k*STEP to every element: identifies the served publication
UNIT_PAIRS = [("m", "m"), ("m", "km"), ("mm", "m"), ("mm/d", "m/s"), ("degC", "K"), ("K", "degF"), ("", "1"), ("percent", "1"),
              ("hPa", "mbar"), ("m s-1", "m/s"), ("kg m-2 s-1", "g m-2 d-1"), ("W/m2", "MJ/m2/d"), ("m", "m"), ("", "")]
FOREIGN = {"m": "cm", "mm": "m", "mm/d": "cm/d", "degC": "degF", "K": "degC", "": "percent", "percent": "ppm", "hPa": "Pa",
           "m s-1": "km/h", "kg m-2 s-1": "g m-2 d-1", "W/m2": "MJ/m2/d"}


def _unstructured(kind, nx, ny, order):
    xs, ys = np.meshgrid(np.arange(nx) * 1.0 + 2.0, np.arange(ny) * 2.0 - 1.0, indexing="ij")
    pts = np.stack([xs.ravel(), ys.ravel()], axis=1)
    if kind == "upoints":
        return fm.UnstructuredPoints(pts, order=order)
    cells = []
    for i in range(nx - 1):
        for j in range(ny - 1):
            a, b, c, d = i * ny + j, (i + 1) * ny + j, (i + 1) * ny + j + 1, i * ny + j + 1
            cells += [[a, b, c], [a, c, d]]
    return fm.UnstructuredGrid(pts, cells, [fm.CellType.TRI] * len(cells), data_location="CELLS" if kind == "ucells" else "POINTS", order=order)


def build_grids(g):
    """(producer grid, consumer grid, producer base values, consumer base values, grid order)"""
    cls = g["cls"]
    if cls.startswith("nogrid"):
        shape = tuple(g["shape"])
        mk = (lambda: fm.NoGrid(data_shape=shape)) if g.get("fixed_shape", True) else (lambda: fm.NoGrid(len(shape)))
        base = (np.arange(int(np.prod(shape)), dtype=float).reshape(shape) * 0.5 + 1.0) if shape else np.array(1.5)
        return mk(), mk(), base, base, "C"
    if cls in ("ucells", "upoints", "upts_grid"):
        grid = _unstructured(cls, g["nx"], g["ny"], g["order"])
        base = mg.encode_points(grid.data_points)
        return grid, _unstructured(cls, g["nx"], g["ny"], g["order"]), base, base, g["order"]
    ga = mg.make_grid(g)
    cg = g.get("consumer") or g
    gb = mg.make_grid(cg)
    return ga, gb, mg.located(g), mg.located(cg), g["order"]


class C08(Property):
    id = "C08"
    anchors = ('finam.sdk.output:Output.push_data', 'finam.sdk.output:Output._interpolate', 'finam.sdk.input:Input._convert_and_check', 'finam.data.tools.core:prepare')
    technique = "reference-model monitor on recorded push/pull histories of a real link: nearest-publication model + dimensional unit oracle + located-value encoding"
    rule = (
        "random interleavings of publications (payload forms: scalar, list, 0/1/n-d array, flat-in-grid-order, masked, Quantity in own/"
        "equivalent/foreign units, incompatible units, wrong size, memory-sharing re-publication) and pulls (on, between, exactly midway, "
        "before the oldest retained, after the newest) over grids {NoGrid 0-2 D, uniform/rectilinear/ESRI in all layouts with re-laid-out "
        "consumers, unstructured cells/points} and unit pairs; non-trivial = >=2 publications and >=1 served pull between publications; "
        "distinct by (grid, units, mask mode, payload forms, event pattern); every 12th case drives a pull-based source (CallbackOutput) with 1-3 "
        "consumers whose callback hands out fresh arrays, the previous array again or a view of it (plain or as quantity)"
    )
    assumptions = ("oldest retained entry is read from the public attribute Output.data (retention itself is C09's subject)",)
    cases = {"quick": 12000, "thorough": 1000000}
    min_nontrivial = {"quick": 6000, "thorough": 300000}

    def gen(self, rnd, i, tier):
        if i % 12 == 11:
            return self._gen_callback(rnd)
        r = rnd.random()
        if r < 0.25:
            nd = rnd.randint(0, 2)
            g = dict(cls=f"nogrid{nd}", shape=[rnd.randint(1, 3) for _ in range(nd)], fixed_shape=True)
        elif r < 0.4:
            g = dict(cls=rnd.choice(["ucells", "upoints", "upts_grid"]), nx=rnd.randint(2, 3), ny=rnd.randint(2, 4), order=rnd.choice("CF"))
        else:
            g = mg.random_structured_spec(rnd, lens=(1, 2, 3, 4) if rnd.random() < 0.3 else (2, 3, 4))
            if rnd.random() < 0.5:
                lay = rnd.choice(list(mg.layouts(len(g["dims"]))))
                g["consumer"] = dict(g, **lay) if g["cls"] != "esri" else dict(g, order=rnd.choice("CF"))
        units = rnd.choice(UNIT_PAIRS)
        mask_mode = rnd.choice(["none", "none", "flex_masked", "fixed", "fixed_flexcons", "NONE"])
        if g["cls"].startswith("nogrid") and mask_mode in ("fixed", "fixed_flexcons", "flex_masked") and not g["shape"]:
            mask_mode = "none"
        if g["cls"].startswith("nogrid") and mask_mode in ("none", "NONE") and rnd.random() < 0.5:
            g["fixed_shape"] = False  # flexible extents (-1)
        events = []
        tcur = 0
        npub = 0
        forms = ["shaped", "shaped", "flat", "list", "quantity", "equivalent", "foreign", "time_axis", "masked_payload"]
        for _ in range(rnd.randint(4, 14)):
            k = rnd.random()
            if npub == 0 or k < 0.45:
                tcur += rnd.choice([1, 2, 3, 5, 10, 60, 3600, 3600, 90000, 200000, 604800])  # also gaps of more than a day
                events.append(["push", tcur, rnd.choice(forms)])
                npub += 1
            elif k < 0.55:
                tcur += rnd.choice([1, 2, 4])
                events.append([rnd.choice(["push_shared", "push_view", "push_incompatible", "push_wrong_size"]), tcur, "shaped"])
            else:
                events.append(["pull", rnd.choice(["on", "between", "mid", "before", "after", "between", "on_old"]), rnd.random()])
        return dict(grid=g, units=list(units), mask=mask_mode, events=events, mseed=rnd.randrange(1 << 30),
                    memory=rnd.choice([None, None, None, 0, 64, 300]))

    # ----------------------------------------------------------------------------------
    # pull-based sources (CallbackOutput, used by the shipped WeightedSum / noise / parametric components): each pull is a
    # publication made on demand; with several consumers the publication sharing memory with the previous one may be triggered
    # by another consumer than the previous one was
    def _gen_callback(self, rnd):
        n_cons = rnd.choice([1, 2, 2, 3])
        script, tcur = [], 0
        for _ in range(rnd.randint(3, 12)):
            tcur += rnd.choice([0, 1, 2, 60, 3600, 90000])
            script.append([rnd.randrange(n_cons), tcur, rnd.choice(["fresh", "fresh", "fresh", "same", "view", "quantity_fresh", "quantity_same"])])
        return dict(callback=dict(n_cons=n_cons, size=rnd.randint(1, 5), script=script), units=list(rnd.choice(UNIT_PAIRS)))

    def _run_callback(self, spec):
        out = Outcome()
        out.sample = spec
        cb, (pu, cu) = spec["callback"], spec["units"]
        n = cb["size"]
        state = dict(next=None)
        src = fm.CallbackOutput(callback=lambda _o, _t: state["next"], name="out", info=fm.Info(time=slots.T0, grid=fm.NoGrid(1), units=pu))
        inputs = [fm.Input(name=f"in{k}", info=fm.Info(time=slots.T0, grid=fm.NoGrid(1), units=cu)) for k in range(cb["n_cons"])]
        slots.wire(src, [], inputs)
        slots.exchange(inputs)
        last_arr, last_cons, accepted, k = None, None, 0, 0
        for cons, tsec, how in cb["script"]:
            shares = how in ("same", "view", "quantity_same") and last_arr is not None
            if shares:
                arr = last_arr if how != "view" else last_arr[...]
            else:
                k += 1
                arr = np.arange(n, dtype=float) + k * STEP
            vals = np.array(arr, dtype=float)
            state["next"] = fm.UNITS.Quantity(arr, pu) if how.startswith("quantity") else arr
            try:
                got = inputs[cons].pull_data(slots.t(tsec))
                refused = False
            except fm.FinamDataError:
                refused = True
            out.count("callback_pulls")
            if shares:
                other = "other_consumer" if cons != last_cons else "same_consumer"
                if not refused:
                    out.viol("callback_shared_accepted", f"pull-based source handed out an array sharing memory with its previous publication "
                             f"(made for consumer {last_cons}, now for consumer {cons}) and it was accepted", spec=spec)
                    return out
                out.count("callback_shared_refused_" + other)
                continue
            if refused:
                out.viol("callback_fresh_refused", f"pull-based source: a fresh array was refused (consumer {cons}, t={tsec}s)", spec=spec)
                return out
            mag = got.magnitude
            if mag.shape != (1, n) or got.units != fm.UNITS.Unit(cu) or not np.allclose(np.ma.getdata(mag)[0], o_convert(vals, pu, cu), rtol=1e-11, atol=1e-9):
                out.viol("callback_value", f"pull-based source: delivered {mag.tolist()} {got.units}, published {vals.tolist()} {pu}, consumer units {cu}", spec=spec)
                return out
            last_arr, last_cons = arr, cons
            accepted += 1
            out.count("callback_publications")
        if accepted >= 2:
            out.key = repr(("callback", cb["n_cons"], n, pu, cu, [(c, h) for c, _t, h in cb["script"]]))
        return out

    def run(self, spec):
        if "callback" in spec:
            return self._run_callback(spec)
        out = Outcome()
        out.sample = spec
        g = spec["grid"]
        ga, gb, base_a, base_b, order = build_grids(g)
        shape_a, shape_b = np.shape(base_a), np.shape(base_b)
        pu, cu = spec["units"]
        rng = np.random.default_rng(spec["mseed"])
        mode = spec["mask"]
        is_struct = g["cls"] in ("uniform", "rect", "esri")
        # masks: located for structured grids (so they can be compared across layouts)
        if mode in ("fixed", "fixed_flexcons", "flex_masked") and base_a.size > 1:
            if is_struct:
                ma = (np.floor(base_a * 4) % 3 == 0)
                mb = (np.floor(base_b * 4) % 3 == 0)
            else:
                ma = rng.random(shape_a) < 0.4
                mb = ma
            if ma.all():
                ma = ma.copy(); ma.flat[0] = False
                mb = mb.copy(); mb[base_b == base_a.flat[0]] = False
        else:
            ma = mb = None
            if mode != "NONE":
                mode = "none"
        pmask = {"none": fm.Mask.FLEX, "flex_masked": fm.Mask.FLEX, "fixed": ma, "fixed_flexcons": ma, "NONE": fm.Mask.NONE}[mode]
        cmask = {"none": fm.Mask.FLEX, "flex_masked": fm.Mask.FLEX, "fixed": mb, "fixed_flexcons": fm.Mask.FLEX, "NONE": fm.Mask.NONE}[mode]
        loc = None
        if spec.get("memory") is not None:
            import os

            loc = "spill-c08"
            os.makedirs(loc, exist_ok=True)
            out.count("cases_with_memory_limit")
        try:
            o, (inp,) = slots.simple_link(fm.Info(time=slots.T0, grid=ga, units=pu, mask=pmask), fm.Info(time=slots.T0, grid=gb, units=cu, mask=cmask),
                                          memory=spec.get("memory"), location=loc)
        except fm.FinamMetaDataError as e:
            out.viol("link_refused", f"compatible link refused: {e}", spec=spec)
            return out
        try:
            return self._drive(out, spec, o, inp, g, ga, gb, base_a, base_b, order, ma, mb, mode, pu, cu, shape_a, shape_b)
        finally:
            o.finalize()

    def _drive(self, out, spec, o, inp, g, ga, gb, base_a, base_b, order, ma, mb, mode, pu, cu, shape_a, shape_b):
        hist = History()
        last_arr = None
        last_spilled = False
        last_payload = None
        forms_seen, pulls_between = set(), 0

        def value_a(k):
            return base_a + k * STEP

        def expect_b(k):
            return o_convert(base_b + k * STEP, pu, cu)

        for ev in spec["events"]:
            kind = ev[0]
            if kind.startswith("push"):
                tsec, form = ev[1], ev[2]
                k = len(hist)
                vals = np.array(value_a(k), dtype=float)
                expect_error = None
                if kind == "push":
                    payload, last_arr = self._payload(vals, form, pu, order, ma if mode == "flex_masked" else None, mode, not g["cls"].startswith("nogrid"))
                    last_payload = payload
                    forms_seen.add(form)
                elif kind in ("push_shared", "push_view"):
                    if last_arr is None or last_spilled:
                        continue  # nothing to share memory with (the previous publication went to disk when it was made)
                    payload = last_arr if kind == "push_shared" else last_arr.reshape(last_arr.shape)[...]
                    if fm.data.is_quantified(last_payload) and np.shares_memory(np.asarray(last_payload.magnitude), last_arr):
                        # the same buffer again, wrapped the same way as before (e.g. a quantity in an equivalent spelling)
                        payload = fm.UNITS.Quantity(payload, last_payload.units)
                        out.count("shared_republications_as_quantity")
                    expect_error = fm.FinamDataError
                elif kind == "push_incompatible":
                    bad_units = "s" if pu not in ("s",) else "m"
                    payload = fm.UNITS.Quantity(vals.copy(), bad_units)
                    expect_error = fm.FinamDataError
                else:
                    payload = np.concatenate([vals.ravel(), [1.0, 2.0]])
                    if vals.ndim == 0 or (g["cls"].startswith("nogrid") and not g.get("fixed_shape", True)):
                        continue  # NoGrid with flexible extents: no 'wrong size' exists there
                    if g["cls"].startswith("nogrid"):
                        payload = np.concatenate([vals, vals], axis=-1)
                    expect_error = fm.FinamDataError
                try:
                    o.push_data(payload, slots.t(tsec))
                    pushed = True
                except (fm.FinamDataError, np.ma.MaskError) as e:
                    if isinstance(e, np.ma.MaskError) and kind != "push_wrong_size":
                        raise
                    pushed = False
                    if expect_error is None:
                        out.viol("push_refused", f"valid publication refused ({form}): {e}", spec=spec)
                        return out
                    out.count("bad_push_refused_" + kind)
                if pushed:
                    if expect_error is not None:
                        out.viol("bad_push_accepted", f"{kind} accepted by push_data", spec=spec)
                        return out
                    hist.push(tsec, k)
                    # where the entry went at publication time (an implementation may move entries between disk and RAM later)
                    last_spilled = bool(o.data) and isinstance(o.data[-1][1], str)
                    out.count("publications")
                    if o.time != slots.t(tsec):
                        out.viol("output_time", f"Output.time {o.time} after publishing at {slots.t(tsec)}", spec=spec)
                continue
            # pulls
            if not len(hist):
                continue
            oldest = slots.sec(o.data[0][0])
            newest = hist.newest
            where, u = ev[1], ev[2]
            if where == "on":
                tq = hist.t[int(u * len(hist)) % len(hist)]
            elif where == "on_old":
                tq = hist.t[0]
            elif where in ("between", "mid"):
                if len(hist) < 2:
                    continue
                j = int(u * (len(hist) - 1))
                a, b = hist.t[j], hist.t[j + 1]
                if where == "mid":
                    if (b - a) % 2:
                        continue
                    tq = a + (b - a) // 2
                else:
                    if b - a < 2:
                        continue
                    tq = a + 1 + int((u * 7919) % (b - a - 1))
            elif where == "before":
                tq = oldest - 1 - int(u * 5)
            else:
                tq = newest + 1 + int(u * 5)
            served_expected = oldest <= tq <= newest
            try:
                got = inp.pull_data(slots.t(tq))
                served = True
            except fm.FinamTimeError:
                served = False
            out.count("pulls")
            if served != served_expected:
                out.viol("range", f"pull at {tq}s with retained range [{oldest},{newest}] was {'served' if served else 'refused'}", spec=spec, t=tq)
                return out
            if not served:
                out.count("out_of_range_refused")
                continue
            acc = hist.nearest(tq)
            mag = got.magnitude
            if mag.shape != (1,) + tuple(shape_b):
                out.viol("shape", f"delivered shape {mag.shape}, expected {(1,) + tuple(shape_b)}", spec=spec)
                return out
            lab_ok = got.units == fm.UNITS.Unit(cu)
            if not lab_ok:
                out.viol("units_label", f"delivered units {got.units}, consumer declared {cu}", spec=spec)
                return out
            data = np.ma.getdata(mag)[0]
            keep = ~mb if mb is not None and mode != "NONE" else np.ones(shape_b, bool)
            okk = [k for k in sorted(acc) if np.allclose(data[keep], expect_b(hist.v[k])[keep], rtol=1e-11, atol=1e-9)]
            if not okk:
                k0 = sorted(acc)[0]
                diff = np.argwhere(~np.isclose(data, expect_b(hist.v[k0]), rtol=1e-11, atol=1e-9))
                out.viol(
                    "value",
                    f"pull at {tq}s: delivered data is not publication {sorted(acc)} (published at {[hist.t[k] for k in sorted(acc)]}) converted {pu}->{cu}; "
                    f"first differing element {diff[0].tolist() if len(diff) else '-'}: got {data.ravel()[:4].tolist()} expected {expect_b(hist.v[k0]).ravel()[:4].tolist()}",
                    spec=spec, t=tq,
                )
                return out
            # mask demanded by the metadata
            gm = np.ma.getmaskarray(mag)[0] if np.ma.isMaskedArray(mag) else np.zeros(shape_b, bool)
            em = mb if mb is not None else np.zeros(shape_b, bool)
            if not np.array_equal(gm, em):
                out.viol("mask", f"delivered mask {gm.tolist()} expected {np.asarray(em).tolist()} (mode {mode})", spec=spec)
                return out
            if mode == "NONE" and np.ma.isMaskedArray(mag):
                out.viol("mask_none", "Mask.NONE link delivered a masked array", spec=spec)
                return out
            if where in ("between", "mid"):
                pulls_between += 1
                out.count("pulls_between_publications")
            if where == "mid":
                out.count("midpoint_pulls")
            out.count("served_pulls")
        if len(hist) >= 2 and pulls_between:
            pat = "".join(e[0][0] + (str(e[1])[0] if e[0] == "pull" else "") for e in spec["events"])
            out.key = repr((sorted((k, repr(v)) for k, v in g.items()), pu, cu, mode, sorted(forms_seen), pat))
        if g.get("consumer") and not np.array_equal(base_a, base_b):
            out.count("relayout_cases")
        return out

    def _payload(self, vals, form, pu, order, mask, mode, is_grid=True):
        """returns (payload, array object a memory-sharing re-publication would reuse or None)"""
        arr = vals.copy()
        if mask is not None:  # FLEX link carrying masked payloads: mask travels with the data
            marr = np.ma.array(arr, mask=mask.copy())
            return (fm.UNITS.Quantity(marr, pu) if form in ("quantity", "equivalent") else marr), None
        if form == "masked_payload" and mode == "none" and arr.size > 1:
            return np.ma.array(arr, mask=np.ma.nomask), None
        if form == "flat" and arr.ndim > 1 and is_grid:
            return arr.ravel(order=order).copy(), None
        if form == "list":
            return arr.tolist(), None
        if form == "quantity":
            return fm.UNITS.Quantity(arr, pu), arr
        if form == "equivalent":
            eq = {"m s-1": "m/s", "": "1", "hPa": "mbar", "kg m-2 s-1": "kg/m2/s", "W/m2": "W m-2"}.get(pu, pu)
            return fm.UNITS.Quantity(arr, eq), arr
        if form == "foreign":
            fu = FOREIGN.get(pu)
            if fu is None:
                return arr, arr
            return fm.UNITS.Quantity(o_convert(arr, pu, fu), fu), None
        if form == "time_axis":
            return arr[None, ...], None
        return arr, arr

    def coverage_gaps(self, counters, tier):
        need = ["publications", "served_pulls", "pulls_between_publications", "midpoint_pulls", "out_of_range_refused", "relayout_cases",
                "bad_push_refused_push_shared", "bad_push_refused_push_view", "bad_push_refused_push_incompatible", "bad_push_refused_push_wrong_size",
                "callback_publications", "callback_shared_refused_other_consumer", "callback_shared_refused_same_consumer"]
        return [f"{k} never observed" for k in need if not counters.get(k)]


PROP = C08()
