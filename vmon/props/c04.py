"""C04 - unresolvable dependency cycles are reported; delay-resolved cycles run.

The expected outcome class is predicted from the generated spec alone (own simple-cycle
enumeration, effective delays = fixed delays downstream of the last push-based adapter of the
link); the observed outcome of the real connect()/run() is compared with it, and on successful
runs the C01/C02 monitors must stay silent.
"""
from .. import gen_coupling, sched_run
from ..runner import Outcome, Property
from .c01 import shape_key


class C04(Property):
    id = "C04"
    anchors = ('finam.schedule:Composition._update_recursive', 'finam.schedule:Composition._connect_components', 'finam.adapters.time:DelayFixed.with_delay')
    technique = "outcome-class oracle from the spec (cycle enumeration + effective delay budget) vs observed exception class of the real run, with the C01/C02 monitors attached; logical step cap instead of wall-clock for 'no hang'"
    rule = (
        "rings of 2-5 time components, with chord and tail, pull-based components on ring links, delay budget per cycle drawn from "
        "{none, sufficient (>= sum of largest steps; split over 1-3 fixed delays anywhere downstream of push-based adapters), in-between}, "
        "ineffective delays (upstream of push-based adapters) in the 'none' class, random listing/link orders; plus acyclic graphs incl. "
        "diamonds through shared pull-based components (false-positive side). non-trivial = cyclic with expected class ok or circular; "
        "distinct by shape key + class"
    )
    assumptions = (
        "cycles are explored with equal start times (observation O1 in DESIGN.md)",
        "in-between budgets are unconstrained: they must end in success with clean monitors or exactly FinamCircularCouplingError",
        "delay-to-pull adapters resolve cycles only in a dedicated two-component class with constant steps (n * consumer step >= sum of both steps)",
    )
    cases = {"quick": 1200, "thorough": 150000}
    min_nontrivial = {"quick": 400, "thorough": 30000}

    def gen(self, rnd, i, tier):
        if i % 6 == 5:
            spec = gen_coupling.gen_dag(rnd, cycle=None, pull_prob=0.5)
            spec["meta"].update(expect="ok", klass="acyclic")
            return spec
        if i % 12 == 7:
            return gen_coupling.gen_ring(rnd, pull_prob=0.0, meta_cycle=True)
        if i % 12 == 3:
            return gen_coupling.gen_dpull_ring(rnd)
        if i % 12 == 9:
            return gen_coupling.gen_holdnd_ring(rnd)
        return gen_coupling.gen_ring(rnd)

    def run(self, spec):
        out = Outcome()
        out.sample = spec
        rep = sched_run.run_spec(spec)
        exp = spec["meta"]["expect"]
        klass = spec["meta"]["klass"]
        out.count("class_" + klass)
        out.count("updates_observed", len(rep.updates))
        oc = rep.outcome
        clean = not rep.lacking_at_update and not rep.unjustified and not rep.pull_failures
        desc = f"class {klass} (expected {exp}), {spec['meta'].get('cycles', 0)} cycle(s)"
        if oc in ("StepCapExceeded", "RecursionError"):
            out.viol("hang_or_unbounded_recursion", f"{desc}: {oc}", spec=spec)
        elif exp == "circular":
            if oc != "FinamCircularCouplingError":
                out.viol("unresolved_cycle_not_reported", f"{desc}: outcome {oc} {rep.message[:150]} instead of FinamCircularCouplingError", spec=spec, trace=rep.trace)
            else:
                out.count("circular_reported")
        elif exp == "ok":
            if oc != "ok":
                kind = "acyclic_reported_circular" if klass == "acyclic" and oc == "FinamCircularCouplingError" else "resolved_cycle_failed"
                out.viol(kind, f"{desc}: {rep.phase} ended with {oc}: {rep.message[:200]}", spec=spec, trace=rep.trace)
            elif not clean:
                w = (rep.lacking_at_update or rep.unjustified or rep.pull_failures)[0]
                out.viol("scheduling_guarantee_broken_in_cycle", f"{desc}: run completed but the scheduling monitors fired: {w}", spec=spec)
            else:
                out.count("completed_clean")
        else:
            if oc == "ok" and clean:
                out.count("inbetween_completed")
            elif oc == "FinamCircularCouplingError":
                out.count("inbetween_reported_circular")
            else:
                out.viol("inbetween_bad_outcome", f"{desc}: outcome {oc} {rep.message[:150]} (clean monitors: {clean})", spec=spec, trace=rep.trace)
        if klass != "acyclic" and exp in ("ok", "circular"):
            out.key = shape_key(spec) + klass
        if spec["meta"].get("n_pull") and klass != "acyclic":
            out.count("rings_with_pull_based_components")
        return out

    def coverage_gaps(self, counters, tier):
        need = ["class_none", "class_sufficient", "class_between", "class_acyclic", "class_meta_cycle", "class_dpull_ring", "class_holdnd_ring", "circular_reported", "completed_clean",
                "rings_with_pull_based_components"]
        return [f"{k} never observed" for k in need if not counters.get(k)]


PROP = C04()
