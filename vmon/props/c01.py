"""C01 - the scheduler never updates a component before its input data exists.

Runtime monitor on every update() of generated compositions: (a) trace - no pull of an own input
at the announced time fails; (b) model - at update entry the independent scheduling model
(model_sched) finds no input whose source lags behind the time that will actually be requested.
"""
from .. import gen_coupling, sched_run
from ..findings import predicate
from ..runner import Outcome, Property


def shape_key(spec):
    comps = spec["comps"]
    steps = tuple(sorted(tuple(c["steps"]) for c in comps if c["type"] == "time"))
    chains = tuple(sorted(tuple(a[0] for a in ln["chain"]) for ln in spec["links"]))
    return repr((steps, chains, tuple(spec["order"]), spec["meta"].get("cyclic"), spec["meta"].get("n_pull")))


@predicate("integration_adapter_asked_twice_for_one_time")
def _f22(pid, spec, v):
    """a delay adapter below an integration adapter repeats its (clamped) request time: the integration adapter is asked
    for an interval of zero length and raises; recognised by the recorder's observation, not by the message"""
    return (pid == "C01" and spec.get("meta", {}).get("integ_before_delay") and v.get("kind") in ("pull_failed_in_update", "time_error_in_run")
            and v.get("where") == "repeated_request_at_integration_adapter")


def classify_orderings(spec, out):
    for ln in spec["links"]:
        kinds = [a[0] for a in ln["chain"]]
        for a in kinds:
            out.count("adapter_" + a)
        if any(a[0] == "dfix" and len(a) > 2 and a[2] == "user" for a in ln["chain"]):
            out.count("links_with_user_defined_delay_adapter")
        for i, a in enumerate(kinds):
            if a in ("dfix", "dpull", "dpush"):
                if any(b in gen_coupling.PUSH for b in kinds[i + 1:]):
                    out.count("delay_upstream_of_push_based")
                if any(b in gen_coupling.PUSH for b in kinds[:i]):
                    out.count("delay_downstream_of_push_based")
        if sum(1 for a in kinds if a in ("dfix", "dpull")) >= 2:
            out.count("links_with_several_delays")


class C01(Property):
    id = "C01"
    anchors = ('finam.schedule:Composition._update_recursive', 'finam.schedule:_find_dependencies', 'finam.sdk.output:Output._interpolate', 'finam.adapters.time:check_time')
    technique = "runtime monitor on every update(): pull failures attributed to the running update + independent scheduling reference model evaluated on a snapshot at update entry"
    rule = (
        "random coupling graphs of 2-5 time components (DAG shapes, parallel links, 35% with one delay-resolved back edge), fixed or cycling "
        "step sequences incl. non-integer ratios, start offsets, 0-3 adapters per link in every ordering (scale, probe, next/prev/linear/step, "
        "avg/sum, fixed/to-pull/to-push delays), pull-based components spliced into links (eager and guarded), random listing and link order; "
        "every update is checked. non-trivial = >=1 cross-component pull through >=1 adapter served and producer/consumer steps differ; "
        "distinct by (step sets, adapter-kind sequence per link, order, cyclic, #pull comps)"
    )
    assumptions = (
        "harness consumers pull exactly at the announced next_time and producers publish at every step",
        "a delay adapter directly below an integration adapter is generated in a class of its own (known finding F22); the other classes keep integration adapters nearer to the consumer than delay adapters",
        "each pull-based component serves one consumer link here; fan-out of pull-based components is C20's subject (known finding F11)",
    )
    cases = {"quick": 1500, "thorough": 120000}
    min_nontrivial = {"quick": 400, "thorough": 20000}

    def gen(self, rnd, i, tier):
        cyc = "sufficient" if rnd.random() < 0.35 else None
        spec = gen_coupling.gen_dag(rnd, cycle=cyc, shipped=0.0 if cyc else 0.25)
        if not cyc and rnd.random() < 0.08:
            # every ordering of adapters: a delay adapter directly below an integration adapter (known finding F22)
            return gen_coupling.with_delay_below_integration(spec, rnd)
        return gen_coupling.with_user_adapters(spec, rnd, 0.3) if rnd.random() < 0.3 else spec

    def run(self, spec):
        out = Outcome()
        out.sample = spec
        rep = sched_run.run_spec(spec)
        out.count("updates_checked", len(rep.updates))
        out.count("compositions")
        if spec["meta"].get("integ_before_delay"):
            out.count("compositions_with_delay_below_integration_adapter")
        if spec.get("auto_start"):
            out.count("compositions_finding_their_start_time_themselves")
        classify_orderings(spec, out)
        for f in rep.pull_failures:
            if f["exc"] in ("FinamTimeError", "FinamNoDataError"):
                out.viol("pull_failed_in_update", f"{f['comp']}.{f['input']} pull at {f['t']}h failed during its update: {f['exc']}: {f['msg']}", spec=spec, witness=f, where=f.get("where"))
        for lk in rep.lacking_at_update:
            out.viol("updated_before_data_exists", f"update of {lk['comp']} (announced pull {lk['next']}h) while sources lag: {lk['lacking']}; component times {lk['times']}", spec=spec, witness=lk)
        for lk in rep.lacking_by_push_log:
            if not any(x["comp"] == lk["comp"] and x["next"] == lk["next"] for x in rep.lacking_at_update):
                out.viol("updated_before_data_published", f"update of {lk['comp']} (announced pull {lk['next']}h): {lk['source']} must have published up to {lk['needs']}h, "
                         f"the recorder saw publications only up to {lk['newest_publication_seen']}h (Output.time says {lk['output_time_attr']}h)", spec=spec, witness=lk)
        out.count("publication_log_checks", len(rep.updates))
        if rep.outcome != "ok":
            if rep.outcome in ("FinamTimeError", "FinamNoDataError") and rep.phase == "run" and not rep.pull_failures:
                out.viol("time_error_in_run", f"run() ended with {rep.outcome}: {rep.message}", spec=spec, trace=rep.trace, where=rep.refusals.last())
            elif not out.violations:
                out.notes.append(f"run aborted in {rep.phase}: {rep.outcome}")
                out.count("aborted_runs")
            return out
        served = sum(len(v) for v in rep.received.values())
        out.count("pulls_served", served)
        steps = {tuple(c["steps"]) for c in spec["comps"] if c["type"] == "time"}
        if served and any(ln["chain"] for ln in spec["links"]) and len(steps) > 1:
            out.key = shape_key(spec)
        if spec["meta"]["cyclic"]:
            out.count("delay_resolved_cycles_completed")
        if spec["meta"]["n_pull"]:
            out.count("compositions_with_pull_based_components")
        if any(a[0] == "dfix" and a[1] < 0 for ln in spec["links"] for a in ln["chain"]):
            out.count("compositions_with_look_ahead_links")
        if getattr(rep.built.ctx, "refused_publications", 0):
            out.count("refused_publications_in_runs", rep.built.ctx.refused_publications)
        if rep.built.ctx.errors:
            out.viol("harness_observation", str(rep.built.ctx.errors[:2]), spec=spec)
        if spec["meta"].get("n_trunks"):
            out.count("compositions_with_fanout_below_adapter")
        if any(c.get("publish_every") for c in spec["comps"]):
            out.count("compositions_with_sparse_publishers")
        if any(c.get("impl") == "shipped" for c in spec["comps"]):
            out.count("compositions_with_shipped_components")
        return out

    def coverage_gaps(self, counters, tier):
        need = ["updates_checked", "pulls_served", "delay_upstream_of_push_based", "delay_downstream_of_push_based", "links_with_several_delays",
                "delay_resolved_cycles_completed", "compositions_with_pull_based_components", "compositions_with_shipped_components", "compositions_with_sparse_publishers", "compositions_with_fanout_below_adapter", "compositions_with_look_ahead_links",
                "refused_publications_in_runs", "links_with_user_defined_delay_adapter", "compositions_with_delay_below_integration_adapter", "compositions_finding_their_start_time_themselves"] + [
                    "adapter_" + a for a in ("scale", "probe", "lin", "next", "prev", "step", "avg", "sum", "dfix", "dpull", "dpush", "hold")]
        gaps = [f"{k} never observed" for k in need if not counters.get(k)]
        if counters.get("aborted_runs", 0) > 0.05 * max(1, counters.get("compositions", 0)):
            gaps.append(f"{counters.get('aborted_runs')} of {counters.get('compositions')} runs aborted for reasons outside this property")
        return gaps


PROP = C01()
