"""C18 - masked data: compression round-trips, prepare applies exactly the fixed mask, and the
connect-time acceptance table for mask specifications.

Oracles: direct numpy reference for the round trip; explicit acceptance table; layout equality
through the located encoding of the mask (mask bit = function of the physical coordinate).
"""
import numpy as np

import finam as fm
from finam.data import tools as dt

from .. import model_grid as mg
from .. import slots
from ..runner import Outcome, Property


def _mask(rng, shape, kind):
    n = int(np.prod(shape))
    if kind == "nomask":
        return np.ma.nomask
    if kind == "empty":
        return np.zeros(shape, dtype=bool)
    if kind == "full":
        return np.ones(shape, dtype=bool)
    m = rng.random(shape) < rng.choice([0.2, 0.5, 0.8])
    if n > 1 and (m.all() or not m.any()):
        m.flat[0] = not m.flat[0]
    return m


def _located_mask(spec, salt):
    """mask whose bit is a function of the coordinate: comparable across layouts of one geometry"""
    v = mg.located(spec)
    return (np.floor(v * 4 + salt) % 3 == 0)


class C18(Property):
    id = "C18"
    anchors = ('finam.data.tools.mask:to_compressed', 'finam.data.tools.mask:from_compressed', 'finam.data.tools.mask:masks_compatible', 'finam.data.tools.mask:masks_equal', 'finam.data.tools.core:prepare')
    technique = "numpy reference for compress/expand, fixed-mask prepare monitor, explicit acceptance-table oracle on Info.accepts and real links, located masks across grid layouts"
    rule = (
        "three case kinds: (roundtrip) random shape<=3-D sizes 1-4, order C/F, mask none/empty/partial/full, plain/Quantity/masked input, mask "
        "carried or passed; (prepare) fixed-mask Info on structured grids of all layouts and NoGrid, unmasked payload plain/list/Quantity, "
        "shaped/flat/with time axis; (accept) all pairs of producer x consumer mask specs {FLEX, NONE, fixed A, fixed A', fixed B} on layout "
        "pairs of one geometry, via Info.accepts both directions and a real Output>>Input exchange. non-trivial = partial mask involved; "
        "distinct by full case parameters"
    )
    assumptions = (
        "prepare on input that is already masked keeps the payload's mask: recorded as an observation, not judged (outside the statement)",
        "a NONE consumer facing a producer that declares an explicit all-False/nomask mask is not judged (statement speaks of 'unmasked producers')",
    )
    cases = {"quick": 24000, "thorough": 2000000}
    min_nontrivial = {"quick": 10000, "thorough": 500000}

    def gen(self, rnd, i, tier):
        kind = ("roundtrip", "prepare", "accept")[i % 3]
        seed = rnd.randrange(1 << 30)
        if kind == "roundtrip":
            nd = rnd.randint(1, 3)
            return dict(kind=kind, shape=[rnd.randint(1, 4) for _ in range(nd)], order=rnd.choice("CF"),
                        mask=rnd.choice(["nomask", "empty", "partial", "partial", "partial", "full"]),
                        form=rnd.choice(["masked", "plain+mask", "quantity_masked", "quantity+mask"]), seed=seed)
        if kind == "prepare":
            g = mg.random_structured_spec(rnd, lens=(1, 2, 3, 4)) if rnd.random() < 0.85 else dict(cls="nogrid", shape=[rnd.randint(1, 4) for _ in range(rnd.randint(1, 2))])
            return dict(kind=kind, grid=g, mask=rnd.choice(["empty", "partial", "partial", "partial", "full"]),
                        payload=rnd.choice(["array", "list", "quantity", "quantity_foreign"]),
                        layout=rnd.choice(["shaped", "flat", "time", "flat"]), seed=seed)
        a = mg.random_structured_spec(rnd, classes=("uniform", "rect"), lens=(2, 3, 4))
        lay = rnd.choice(list(mg.layouts(len(a["dims"]))))
        b = dict(a, **lay) if rnd.random() < 0.7 else dict(a)
        specs = ["FLEX", "NONE", "A", "A2", "B", "nomask", "empty"]
        if rnd.random() < 0.02:
            return dict(kind=kind, broadcast=[rnd.randint(2, 4), rnd.randint(2, 4)])
        return dict(kind=kind, a=a, b=b, prod=rnd.choice(specs), cons=rnd.choice(specs), cons_grid_unset=rnd.random() < 0.15,
                    prod_grid_unset=rnd.random() < 0.1, seed=seed, alias=rnd.random() < 0.15)

    # --------------------------------------------------------------------------------
    def run(self, spec):
        out = Outcome()
        out.sample = spec
        getattr(self, "_" + spec["kind"])(out, spec)
        return out

    def _roundtrip(self, out, spec):
        rng = np.random.default_rng(spec["seed"])
        shape, order = tuple(spec["shape"]), spec["order"]
        vals = rng.permutation(int(np.prod(shape))).astype(float).reshape(shape) + 1.0
        mask = _mask(rng, shape, spec["mask"])
        form = spec["form"]
        marr = np.ma.array(vals.copy(), mask=mask)
        if form == "masked":
            x, kw = marr, {}
        elif form == "plain+mask":
            x, kw = vals.copy(), dict(mask=mask)
        elif form == "quantity_masked":
            x, kw = fm.UNITS.Quantity(marr, "m"), {}
        else:
            x, kw = fm.UNITS.Quantity(vals.copy(), "m"), dict(mask=mask)
        comp = dt.to_compressed(x, order=order, **kw)
        out.count("compressions")
        keep = np.ones(shape, bool) if mask is np.ma.nomask else ~mask
        ref = vals.ravel(order=order)[keep.ravel(order=order)]
        cmag = comp.magnitude if fm.data.is_quantified(comp) else comp
        if np.shape(cmag) != ref.shape or not np.array_equal(np.ma.getdata(cmag), ref):
            out.viol("to_compressed", f"compressed {np.asarray(cmag).tolist()} != reference {ref.tolist()} (order {order})", spec=spec)
            return
        if form.startswith("quantity") and (not fm.data.is_quantified(comp) or comp.units != fm.UNITS.Unit("m")):
            out.viol("to_compressed_units", "units lost in to_compressed", spec=spec)
            return
        back = dt.from_compressed(comp, shape, order=order, mask=mask)
        out.count("expansions")
        bmag = back.magnitude if fm.data.is_quantified(back) else back
        if np.shape(bmag) != shape:
            out.viol("from_compressed_shape", f"shape {np.shape(bmag)} expected {shape}", spec=spec)
            return
        bdata, bmask = np.ma.getdata(bmag), np.ma.getmaskarray(bmag)
        if not np.array_equal(bdata[keep], vals[keep]):
            out.viol("roundtrip_values", f"unmasked values not restored at their positions: {bdata.tolist()} vs {vals.tolist()} keep {keep.tolist()}", spec=spec)
            return
        if not np.array_equal(bmask, ~keep):
            out.viol("roundtrip_mask", f"mask not restored: {bmask.tolist()} vs {(~keep).tolist()}", spec=spec)
            return
        if spec["mask"] == "partial" and len(shape) > 1:
            out.key = "rt:" + repr(sorted(spec.items()))
        elif spec["mask"] == "partial":
            out.key = "rt1:" + repr(sorted(spec.items()))

    def _prepare(self, out, spec):
        rng = np.random.default_rng(spec["seed"])
        g = spec["grid"]
        if g["cls"] == "nogrid":
            shape = tuple(g["shape"])
            grid = fm.NoGrid(data_shape=shape)
            order = "C"
        else:
            grid = mg.make_grid(g)
            shape = mg.data_shape(g)
            order = g["order"]
        mask = _mask(rng, shape, spec["mask"])
        info = fm.Info(time=None, grid=grid, units="m", mask=mask)
        vals = rng.permutation(int(np.prod(shape))).astype(float).reshape(shape) + 1.0
        layout = spec["layout"]
        if g["cls"] == "nogrid" and layout == "flat":
            layout = "shaped"
        if layout == "shaped":
            raw = vals.copy()
        elif layout == "time":
            raw = vals.copy()[None, ...]
        else:
            raw = vals.ravel(order=order).copy()  # flat payloads are given in the grid's order
        factor = 1.0
        if spec["payload"] == "list":
            payload = raw.tolist()
        elif spec["payload"] == "quantity":
            payload = fm.UNITS.Quantity(raw, "m")
        elif spec["payload"] == "quantity_foreign":
            payload = fm.UNITS.Quantity(raw / 1000.0, "km")
            factor = 1000.0
        else:
            payload = raw
        if g["cls"] != "nogrid" and len(shape) >= 2 and shape[0] != shape[-1] and spec["seed"] % 4 == 0:
            # history: an invalid mask update (wrong shape, same size) is refused and must leave the Info as it was
            try:
                info.mask = np.zeros(shape[::-1], dtype=bool)
                out.viol("invalid_mask_accepted", f"Info accepted a mask of shape {shape[::-1]} for a grid with data shape {shape}", spec=spec)
                return
            except fm.FinamMetaDataError:
                out.count("refused_mask_updates")
        res = dt.prepare(payload, info)
        out.count("prepare_calls")
        mag = res.magnitude
        if mag.shape != (1,) + shape:
            out.viol("prepare_shape", f"shape {mag.shape} expected {(1,) + shape}", spec=spec)
            return
        gm = np.ma.getmaskarray(mag)[0]
        if not np.array_equal(gm, mask):
            out.viol("prepare_mask", f"mask after prepare {gm.tolist()} != info mask {mask.tolist()} (payload {spec['payload']}/{layout}, order {order})", spec=spec)
            return
        gd = np.ma.getdata(mag)[0]
        keep = ~mask
        if not np.allclose(gd[keep], vals[keep], rtol=1e-12) or (factor == 1.0 and not np.array_equal(gd[keep], vals[keep])):
            out.viol("prepare_values", "values moved while preparing", spec=spec)
            return
        if not np.ma.isMaskedArray(mag):
            out.viol("prepare_not_masked", "fixed-mask info but result is not a masked array", spec=spec)
            return
        if spec["mask"] == "partial" and vals.size > 1:
            out.key = "prep:" + repr(sorted((k, repr(v)) for k, v in spec.items()))
        if layout == "flat" and len(shape) > 1 and order == "F":
            out.count("prepare_flat_F_order")

    def _accept(self, out, spec):
        if spec.get("broadcast"):
            # a consumer that leaves its grid open declares a mask of another shape that merely *broadcasts* to the
            # producer's mask (one row/column flag per line): not an equal mask
            n, m = spec["broadcast"]
            flags = (np.arange(n) % 2 == 0)
            pmask = np.repeat(flags[:, None], m, axis=1)
            pinfo = fm.Info(time=slots.T0, grid=fm.UniformGrid((n + 1, m + 1)), units="m", mask=pmask)
            cinfo = fm.Info(time=slots.T0, grid=None, units="m", mask=flags[:, None].copy())
            out.count("broadcastable_masks")
            out.key = "bc:" + repr(spec["broadcast"])
            for got, side in ((cinfo.accepts(pinfo, {}), "consumer"), (pinfo.accepts(cinfo, {}, incoming_donwstream=True), "producer")):
                if got:
                    out.viol("accepts_table", f"Info.accepts ({side} side) takes a {flags[:, None].shape} mask as equal to the producer's {pmask.shape} mask", spec=spec)
            try:
                slots.simple_link(pinfo, cinfo)
                out.viol("connect_table", "metadata exchange accepted a fixed consumer mask of another shape", spec=spec)
            except fm.FinamMetaDataError:
                pass
            return
        a, b = spec["a"], spec["b"]
        ga, gb = mg.make_grid(a), mg.make_grid(b)

        def mk(name, gspec):
            if name == "FLEX":
                return fm.Mask.FLEX
            if name == "NONE":
                return fm.Mask.NONE
            if name == "nomask":
                return np.ma.nomask
            if name == "empty":
                return np.zeros(mg.data_shape(gspec), bool)
            if name in ("A", "A2"):
                return _located_mask(gspec, 0.0)
            return _located_mask(gspec, 1.0)

        pm, cm = mk(spec["prod"], a), mk(spec["cons"], b)
        prod_fixed = spec["prod"] in ("A", "A2", "B", "nomask", "empty")
        cons_fixed = spec["cons"] in ("A", "A2", "B", "nomask", "empty")
        same_bits = {"A": 0, "A2": 0, "B": 1, "nomask": 2, "empty": 2}
        # degenerate located masks (all equal) would blur A vs B: skip those geometries
        am, bmk = _located_mask(a, 0.0), _located_mask(a, 1.0)
        if am.all() or not am.any() or bmk.all() or not bmk.any() or np.array_equal(am, bmk):
            return
        if spec["cons"] == "FLEX":
            expect = True
        elif spec["cons"] == "NONE":
            expect = True if spec["prod"] == "NONE" else (None if spec["prod"] in ("nomask", "empty") else False)
        else:
            expect = prod_fixed and same_bits[spec["prod"]] == same_bits[spec["cons"]]
        cons_unset = spec["cons_grid_unset"] and np.array_equal(np.shape(cm) if cons_fixed and spec["cons"] != "nomask" else (), mg.data_shape(a) if cons_fixed and spec["cons"] != "nomask" else ())
        prod_unset = spec["prod_grid_unset"] and not cons_unset and np.array_equal(np.shape(pm) if prod_fixed and spec["prod"] != "nomask" else (), mg.data_shape(b) if prod_fixed and spec["prod"] != "nomask" else ())
        if cons_unset:
            # consumer leaves the grid to the producer: its mask is then meant in the producer's layout
            cm = mk(spec["cons"], a)
        if prod_unset:
            pm = mk(spec["prod"], b)
        if spec.get("alias") and prod_fixed and cons_fixed and not cons_unset and not prod_unset and np.shape(pm) == np.shape(cm) and np.shape(pm) != ():
            # both sides hold the very same array object (e.g. one info made from the other): what counts is still which
            # cells it masks in each side's own layout
            cm = pm
            expect = bool(np.array_equal(pm, mk("A" if spec["prod"] in ("A", "A2") else ("B" if spec["prod"] == "B" else spec["prod"]), b)))
            out.count("same_mask_object_on_both_sides")
        pinfo = fm.Info(time=slots.T0, grid=None if prod_unset else ga, units="m", mask=pm)
        cinfo = fm.Info(time=slots.T0, grid=None if cons_unset else gb, units="m", mask=cm)
        # helper level, both directions
        got_down = cinfo.accepts(pinfo, {})
        got_up = pinfo.accepts(cinfo, {}, incoming_donwstream=True)
        out.count("accepts_calls", 2)
        tag = f"producer {spec['prod']} -> consumer {spec['cons']} (layouts {'equal' if a == b else 'differ'}, cons_grid_unset={cons_unset}, prod_grid_unset={prod_unset})"
        if expect is None:
            out.notes.append("observed: NONE consumer vs explicit all-False producer mask -> accepts=%s" % got_down)
            # whether such a producer counts as 'unmasked' is left open; but if the link is made, the consumer that demanded
            # unmasked data must get plain arrays
            try:
                o, (inp,) = slots.simple_link(pinfo, cinfo)
            except fm.FinamMetaDataError:
                o = None
                out.count("none_consumer_refuses_explicit_empty_mask")
            if o is not None:
                o.push_data(np.zeros(tuple(ga.data_shape)), slots.T0)
                got = inp.pull_data(slots.T0)
                out.count("none_consumer_links_with_explicit_empty_mask")
                if np.ma.isMaskedArray(got.magnitude):
                    out.viol("none_consumer_received_masked", f"{tag}: the link was made and the consumer demanding unmasked data received a masked array", spec=spec)
        else:
            # with an unset producer grid the consumer-side test is only meaningful after the
            # output has taken over the consumer's grid, i.e. in the real exchange below
            if not prod_unset and bool(got_down) != expect:
                out.viol("accepts_table", f"Info.accepts (consumer side): {tag} gave {got_down}, table says {expect}", spec=spec)
            if bool(got_up) != expect:
                out.viol("accepts_table_upstream", f"Info.accepts (producer side): {tag} gave {got_up}, table says {expect}", spec=spec)
            # real exchange
            try:
                slots.simple_link(pinfo, cinfo)
                linked = True
            except fm.FinamMetaDataError:
                linked = False
            out.count("link_exchanges")
            if linked != expect:
                out.viol("connect_table", f"metadata exchange: {tag} {'accepted' if linked else 'refused'}, table says {'accept' if expect else 'refuse'}", spec=spec)
            out.count("accept_expected_true" if expect else "accept_expected_false")
        if prod_fixed or cons_fixed:
            out.key = "acc:" + repr((spec["prod"], spec["cons"], sorted(a.items()), sorted(b.items()), cons_unset, prod_unset))
        if cons_unset and cons_fixed and prod_fixed:
            out.count("fixed_vs_fixed_grid_unset")
        if a != b and cons_fixed and prod_fixed and not cons_unset and not prod_unset:
            out.count("fixed_vs_fixed_relayout")

    def coverage_gaps(self, counters, tier):
        need = ["compressions", "expansions", "prepare_calls", "prepare_flat_F_order", "accepts_calls", "link_exchanges",
                "accept_expected_true", "accept_expected_false", "fixed_vs_fixed_relayout", "fixed_vs_fixed_grid_unset", "refused_mask_updates", "broadcastable_masks", "same_mask_object_on_both_sides"]
        return [f"{k} never observed" for k in need if not counters.get(k)]


PROP = C18()
