"""C17 - units: compatibility is dimensional equality, conversion physically exact.

Oracle: a hand-written dimensional table (dimension vector, factor and offset to SI base units)
for a catalogue of unit spellings; pair answers are derived arithmetically from the two rows,
never from a per-pair query to pint. The monitor drives finam's public helpers and real
Output->Input links in random query orders from cold and warm caches.
"""
import math

import numpy as np

import finam as fm
from finam.data import tools as dt

from ..runner import Outcome, Property

# name: (dims (L, M, T, Theta, N), factor to SI, offset to SI)
_D = {
    "len": (1, 0, 0, 0, 0), "mass": (0, 1, 0, 0, 0), "time": (0, 0, 1, 0, 0), "temp": (0, 0, 0, 1, 0),
    "subst": (0, 0, 0, 0, 1), "none": (0, 0, 0, 0, 0), "speed": (1, 0, -1, 0, 0), "area": (2, 0, 0, 0, 0),
    "vol": (3, 0, 0, 0, 0), "flow": (3, 0, -1, 0, 0), "dens": (-3, 1, 0, 0, 0), "mflux": (-2, 1, -1, 0, 0),
    "press": (-1, 1, -2, 0, 0), "energy": (2, 1, -2, 0, 0), "power": (2, 1, -3, 0, 0), "irr": (0, 1, -3, 0, 0),
    "force": (1, 1, -2, 0, 0), "conc": (-3, 0, 0, 0, 1), "geopot": (2, 0, -2, 0, 0), "freq": (0, 0, -1, 0, 0),
    "edens": (0, 1, -2, 0, 0), "acc": (1, 0, -2, 0, 0),
}
DAY = 86400.0
CATALOGUE = [
    # lengths
    ("m", "len", 1.0, 0.0), ("km", "len", 1e3, 0.0), ("cm", "len", 1e-2, 0.0), ("mm", "len", 1e-3, 0.0),
    ("um", "len", 1e-6, 0.0), ("inch", "len", 0.0254, 0.0), ("ft", "len", 0.3048, 0.0), ("yard", "len", 0.9144, 0.0),
    ("mile", "len", 1609.344, 0.0), ("gpm", "len", 1.0, 0.0), ("L/m2", "len", 1e-3, 0.0), ("meter", "len", 1.0, 0.0),
    # time
    ("s", "time", 1.0, 0.0), ("min", "time", 60.0, 0.0), ("h", "time", 3600.0, 0.0), ("hour", "time", 3600.0, 0.0),
    ("d", "time", DAY, 0.0), ("day", "time", DAY, 0.0), ("year", "time", 365.25 * DAY, 0.0), ("yr", "time", 365.25 * DAY, 0.0),
    ("week", "time", 7 * DAY, 0.0), ("ms", "time", 1e-3, 0.0),
    # mass
    ("kg", "mass", 1.0, 0.0), ("g", "mass", 1e-3, 0.0), ("mg", "mass", 1e-6, 0.0), ("t", "mass", 1e3, 0.0),
    # temperature (offset units; delta units are outside the catalogue)
    ("K", "temp", 1.0, 0.0), ("degC", "temp", 1.0, 273.15), ("Celsius", "temp", 1.0, 273.15),
    ("degF", "temp", 5.0 / 9.0, 459.67 * 5.0 / 9.0), ("degK", "temp", 1.0, 0.0),
    # dimensionless
    ("", "none", 1.0, 0.0), ("1", "none", 1.0, 0.0), ("dimensionless", "none", 1.0, 0.0), ("percent", "none", 1e-2, 0.0),
    ("%", "none", 1e-2, 0.0), ("ppm", "none", 1e-6, 0.0), ("psu", "none", 1.0, 0.0), ("m/m", "none", 1.0, 0.0),
    ("mm/m", "none", 1e-3, 0.0), ("degrees_north", "none", math.pi / 180, 0.0), ("degrees_east", "none", math.pi / 180, 0.0),
    ("degree", "none", math.pi / 180, 0.0), ("rad", "none", 1.0, 0.0), ("g/kg", "none", 1e-3, 0.0),
    # speed / rates
    ("m/s", "speed", 1.0, 0.0), ("m s-1", "speed", 1.0, 0.0), ("km/h", "speed", 1e3 / 3600, 0.0), ("mm/d", "speed", 1e-3 / DAY, 0.0),
    ("mm d-1", "speed", 1e-3 / DAY, 0.0), ("mm/h", "speed", 1e-3 / 3600, 0.0), ("cm/d", "speed", 1e-2 / DAY, 0.0),
    ("knot", "speed", 1852.0 / 3600, 0.0), ("m/year", "speed", 1.0 / (365.25 * DAY), 0.0),
    # area / volume / flow
    ("m2", "area", 1.0, 0.0), ("m^2", "area", 1.0, 0.0), ("km2", "area", 1e6, 0.0), ("ha", "area", 1e4, 0.0),
    ("m3", "vol", 1.0, 0.0), ("L", "vol", 1e-3, 0.0), ("m3/s", "flow", 1.0, 0.0), ("L/s", "flow", 1e-3, 0.0),
    ("m3 d-1", "flow", 1.0 / DAY, 0.0),
    # density / fluxes
    ("kg/m3", "dens", 1.0, 0.0), ("g/cm3", "dens", 1e3, 0.0), ("kg m-3", "dens", 1.0, 0.0),
    ("kg m-2 s-1", "mflux", 1.0, 0.0), ("kg/m2/s", "mflux", 1.0, 0.0), ("g m-2 d-1", "mflux", 1e-3 / DAY, 0.0),
    ("kg/m2", "edens2", 1.0, 0.0),
    # mechanics / energy
    ("Pa", "press", 1.0, 0.0), ("hPa", "press", 1e2, 0.0), ("mbar", "press", 1e2, 0.0), ("bar", "press", 1e5, 0.0),
    ("atm", "press", 101325.0, 0.0), ("kPa", "press", 1e3, 0.0), ("N", "force", 1.0, 0.0), ("J", "energy", 1.0, 0.0),
    ("MJ", "energy", 1e6, 0.0), ("cal", "energy", 4.184, 0.0), ("cal_it", "energy", 4.1868, 0.0), ("kWh", "energy", 3.6e6, 0.0),
    ("W", "power", 1.0, 0.0), ("kW", "power", 1e3, 0.0), ("W/m2", "irr", 1.0, 0.0), ("W m-2", "irr", 1.0, 0.0),
    ("MJ/m2/d", "irr", 1e6 / DAY, 0.0), ("J/m2", "edens", 1.0, 0.0), ("m2 s-2", "geopot", 1.0, 0.0), ("J/kg", "geopot", 1.0, 0.0),
    ("Hz", "freq", 1.0, 0.0), ("1/s", "freq", 1.0, 0.0), ("s-1", "freq", 1.0, 0.0), ("1/d", "freq", 1.0 / DAY, 0.0),
    # blank means multiplication in CF/UDUNITS spellings: 'ms-1' (per millisecond) is not 'm s-1' (metre per second)
    ("ms-1", "freq", 1e3, 0.0), ("mm-1", "wavenum", 1e3, 0.0), ("m m-1", "none", 1.0, 0.0),
    ("m/s2", "acc", 1.0, 0.0),
    # substance
    ("mol", "subst", 1.0, 0.0), ("mmol", "subst", 1e-3, 0.0), ("mol/m3", "conc", 1.0, 0.0), ("mmol/L", "conc", 1.0, 0.0),
    ("umol/L", "conc", 1e-3, 0.0),
]
_D["edens2"] = (-2, 1, 0, 0, 0)
_D["wavenum"] = (-1, 0, 0, 0, 0)
TABLE = {u: (_D[d], f, o) for u, d, f, o in CATALOGUE}
NAMES = [u for u, *_ in CATALOGUE]


def o_compatible(a, b):
    return TABLE[a][0] == TABLE[b][0]


def o_convert(x, a, b):
    _, fa, oa = TABLE[a]
    _, fb, ob = TABLE[b]
    return (np.asarray(x, dtype=float) * fa + oa - ob) / fb


def o_equivalent(a, b):
    if not o_compatible(a, b):
        return False, False
    one = float(o_convert(1.0, a, b))
    # (equivalent?, borderline?) borderline = within finam's documented np.isclose slack but not exact
    exact = abs(one - 1.0) <= 1e-9
    border = (not exact) and abs(one - 1.0) <= 2e-5
    return exact, border


def _arg(rnd, u):
    """the public helpers accept strings, Units and Quantities"""
    k = rnd.randrange(3)
    if k == 0:
        return u
    if k == 1:
        return fm.UNITS.Unit(u)
    return fm.UNITS.Quantity(np.array([1.5, 2.5]), u)


class C17(Property):
    id = "C17"
    anchors = ('finam.data.tools.units:compatible_units', 'finam.data.tools.units:equivalent_units', 'finam.data.tools.units:_cache_units', 'finam.data.tools.units:to_units', 'finam.data.tools.core:prepare')
    technique = "reference-model monitor: hand-written dimensional table vs finam unit helpers and real links, random query orders"
    rule = (
        "each case sweeps a random subset (quick) or all (thorough) ordered pairs of a %d-unit catalogue in a fresh "
        "random order, randomly from a cold or warm pair cache, mixing compatible/equivalent queries and str/Unit/"
        "Quantity arguments, then converts arrays via to_units, prepare and a real Output>>Input link; distinct "
        "non-trivial = distinct ordered pairs (a != b) whose answers were compared with the table oracle" % len(NAMES)
    )
    assumptions = (
        "hand-written dimension/factor/offset table is correct (cross-checked against pint's per-unit base conversion at start)",
        "delta and logarithmic units are outside the catalogue",
        "'equivalent' is decided with tolerance 1e-9 by the oracle; pairs within finam's np.isclose slack (2e-5) do not occur in the catalogue and would be counted unconstrained",
    )
    cases = {"quick": 48, "thorough": 1000}
    min_nontrivial = {"quick": 3000, "thorough": len(NAMES) * (len(NAMES) - 1)}
    jobs = {"quick": 4, "thorough": 16}
    exhaustive = {"quick": False, "thorough": True}

    def gen(self, rnd, i, tier):
        n = len(NAMES)
        pairs = [(a, b) for a in range(n) for b in range(n)]
        rnd.shuffle(pairs)
        if tier == "quick":
            pairs = pairs[: len(pairs) // 3]
        return dict(
            cold=rnd.random() < 0.5,
            pairs=pairs,
            argseed=rnd.randrange(1 << 30),
            nconv=60 if tier == "quick" else 200,
        )

    def run(self, spec):
        import random

        out = Outcome()
        rnd = random.Random(spec["argseed"])
        if spec["cold"]:
            dt.clear_units_cache()
        keys = set()
        # table self-check against pint per unit (trusted base), once per case
        for u in rnd.sample(NAMES, 10):
            q0 = fm.UNITS.Quantity(0.0, u).to_base_units()
            q1 = fm.UNITS.Quantity(1.0, u).to_base_units()
            f, o = float(q1.magnitude - q0.magnitude), float(q0.magnitude)
            tf, to = TABLE[u][1], TABLE[u][2]
            kg_fix = 1.0
            if not (math.isclose(f, tf * kg_fix, rel_tol=1e-9) and math.isclose(o, to, rel_tol=1e-9, abs_tol=1e-9)):
                out.notes.append(f"MONITOR-ERROR oracle table disagrees with pint for {u}: {f},{o} vs {tf},{to}")
                return out
        for ia, ib in spec["pairs"]:
            a, b = NAMES[ia], NAMES[ib]
            exp_c = o_compatible(a, b)
            exp_e, border = o_equivalent(a, b)
            which = rnd.randrange(3)
            if which in (0, 2):
                got = dt.compatible_units(_arg(rnd, a), _arg(rnd, b))
                out.count("compatible_queries")
                if bool(got) != exp_c:
                    out.viol("compatible_mismatch", f"compatible_units({a!r},{b!r})={got}, dimensional oracle {exp_c}", a=a, b=b)
            if which in (1, 2):
                got = dt.equivalent_units(_arg(rnd, a), _arg(rnd, b))
                out.count("equivalent_queries")
                if border:
                    out.notes.append("unconstrained: equivalence within isclose slack")
                elif bool(got) != exp_e:
                    out.viol("equivalent_mismatch", f"equivalent_units({a!r},{b!r})={got}, oracle {exp_e} (1 {a} = {o_convert(1.0, a, b)} {b})", a=a, b=b)
            if ia != ib:
                keys.add(f"{a}|{b}")
        # conversions
        for _ in range(spec["nconv"]):
            a = rnd.choice(NAMES)
            if rnd.random() < 0.75:
                b = rnd.choice([u for u in NAMES if o_compatible(a, u)])
            else:
                b = rnd.choice(NAMES)
            self._conversion(out, rnd, a, b)
        out.key = keys
        out.sample = dict(cold=spec["cold"], first_pairs=[(NAMES[x], NAMES[y]) for x, y in spec["pairs"][:5]], n_pairs=len(spec["pairs"]))
        return out

    @staticmethod
    def _through_trigger(x, a, b):
        """generator (units a, value x[k] at hour 2k) -> TimeTrigger(out units b) -> collecting sink; returns the
        quantity array received for hours 0, 2, 4 (connect-phase value first)"""
        import logging
        from datetime import datetime, timedelta

        t0 = datetime(2000, 1, 1)
        vals = [float(v) for v in x[:3]]
        gen = fm.components.CallbackGenerator({"Out": (lambda t: vals[min(2, int((t - t0).total_seconds() // 7200))], fm.Info(time=None, grid=fm.NoGrid(), units=a))}, t0, timedelta(hours=2))
        trig = fm.components.TimeTrigger(start=t0, step=timedelta(hours=2), in_info=fm.Info(time=None, grid=fm.NoGrid(), units=None),
                                         out_info=fm.Info(time=None, grid=fm.NoGrid(), units=b))
        got = []

        class Sink(fm.TimeComponent):
            def __init__(self):
                super().__init__()
                self._time = t0

            def _next_time(self):
                return self.time + timedelta(hours=2)

            def _initialize(self):
                self.inputs.add(name="In", time=self.time, grid=fm.NoGrid(), units=None)
                self.create_connector(pull_data=["In"])

            def _connect(self, st):
                self.try_connect(st)
                if self.status == fm.ComponentStatus.CONNECTED:
                    got.append(self.connector.in_data["In"])

            def _validate(self):
                pass

            def _update(self):
                self._time = self._next_time()
                got.append(self.inputs["In"].pull_data(self.time))

            def _finalize(self):
                pass

        sink = Sink()
        comp = fm.Composition([sink, trig, gen], print_log=False, log_level=logging.CRITICAL + 10)
        gen.outputs["Out"] >> trig.inputs["In"]
        trig.outputs["Out"] >> sink.inputs["In"]
        comp.run(start_time=t0, end_time=t0 + timedelta(hours=4))
        units = got[0].units
        return fm.UNITS.Quantity(np.array([float(np.asarray(g.to(units).magnitude).ravel()[0]) if g.units != units else float(np.asarray(g.magnitude).ravel()[0]) for g in got[:3]]), units)

    def _conversion(self, out, rnd, a, b):
        ref_equiv = None
        x = np.array([rnd.uniform(-50, 50) for _ in range(4)])
        if rnd.random() < 0.25:
            x = np.array([rnd.randint(-2500, 2500) for _ in range(4)])  # integer payload: the converted result is not integral in general
            out.count("integer_payloads")
        compat = o_compatible(a, b)
        equiv, _ = o_equivalent(a, b)
        exp = o_convert(x, a, b) if compat else None
        how = rnd.choice(["to_units", "prepare", "link", "link", "link_v2g", "to_units", "prepare", "link", "trigger"])
        out.count("conversion_" + how)
        try:
            if how == "to_units":
                if not compat:
                    return
                y = dt.to_units(fm.UNITS.Quantity(x.copy(), a), b, check_equivalent=rnd.random() < 0.5)
            elif how == "prepare":
                # sometimes under metadata with a fixed (all-False) mask: conversion must not depend on it
                mk = np.zeros(4, bool) if rnd.random() < 0.4 else fm.Mask.FLEX
                info = fm.Info(time=None, grid=fm.NoGrid(data_shape=(4,)), units=b, mask=mk)
                y = dt.prepare(fm.UNITS.Quantity(x.copy(), a), info)[0]
            elif how == "trigger":
                # a shipped component that republishes what it pulled on an output declared in other units (run phase included)
                y = self._through_trigger(x, a, b)
                x, exp = x[:3].astype(float), (exp[:3] if exp is not None else None)
            elif how == "link_v2g":
                # the link crosses a shipped adapter that rewrites the metadata (one value spread over a grid)
                from datetime import datetime

                t0 = datetime(2000, 1, 1)
                g = fm.UniformGrid((3, 3))
                o = fm.Output(name="o", time=t0, grid=fm.NoGrid(), units=a)
                i = fm.Input(name="i", time=t0, grid=g, units=b)
                o >> fm.adapters.ValueToGrid(g) >> i
                i.ping()
                i.exchange_info()
                o.push_data(float(x[0]), t0)
                y = i.pull_data(t0)[0].ravel()
                x, exp = x[:1].astype(float).repeat(4), (exp[:1].repeat(4) if exp is not None else None)
            else:
                from datetime import datetime

                t0 = datetime(2000, 1, 1)
                mk = np.zeros(4, bool) if rnd.random() < 0.4 else fm.Mask.FLEX
                pub_units = rnd.choice([a, a, b])  # publish in the output's or in foreign (compatible) units
                o = fm.Output(name="o", time=t0, grid=fm.NoGrid(data_shape=(4,)), units=a, mask=mk)
                i = fm.Input(name="i", time=t0, grid=fm.NoGrid(data_shape=(4,)), units=b, mask=mk)
                o >> i
                i.ping()
                i.exchange_info()
                if compat and rnd.random() < 0.6:
                    vals = x.astype(float) if pub_units == a else np.asarray(o_convert(x, a, pub_units), dtype=float)
                    o.push_data(fm.UNITS.Quantity(vals.copy(), pub_units), t0)
                    if pub_units == b:
                        ref_equiv = vals  # published in the consumer's own units: those numbers must arrive unchanged
                else:
                    o.push_data(x.copy(), t0)
                y = i.pull_data(t0)[0]
        except (fm.FinamDataError, fm.FinamMetaDataError) as e:
            if compat:
                out.viol("compatible_refused", f"{how}: {a!r}->{b!r} refused: {type(e).__name__}: {e}", a=a, b=b)
            else:
                out.count("incompatible_refused")
            return
        if not compat:
            out.viol("incompatible_accepted", f"{how}: data in {a!r} accepted for {b!r} -> {y}", a=a, b=b)
            return
        lab_ok = fm.data.is_quantified(y)
        if lab_ok and y.units != fm.UNITS.Unit(b):
            try:  # label must at least be a re-spelling of b (pint per-unit conversion is the trusted base)
                l0 = float(fm.UNITS.Quantity(0.0, y.units).to(b).magnitude)
                l1 = float(fm.UNITS.Quantity(1.0, y.units).to(b).magnitude)
                lab_ok = abs(l0) < 1e-12 and abs(l1 - 1.0) < 1e-12
            except Exception:  # pylint: disable=broad-except
                lab_ok = False
        if not lab_ok:
            out.viol("wrong_label", f"{how}: result labelled {getattr(y, 'units', None)} expected {b}", a=a, b=b)
            return
        got = np.asarray(np.ma.getdata(y.magnitude), dtype=float)
        scale = max(1.0, float(np.max(np.abs(exp))))
        if equiv:
            ref = x if ref_equiv is None else ref_equiv
            ok = np.array_equal(got, ref) or np.allclose(got, ref, rtol=1e-12, atol=0)
            out.count("equivalent_relabels")
        else:
            ok = np.allclose(got, exp, rtol=1e-9, atol=1e-9 * scale)
            out.count("true_conversions")
        if not ok:
            out.viol("wrong_conversion", f"{how}: {x.tolist()} {a!r} -> {b!r} gave {got.tolist()}, dimensional analysis {exp.tolist()}", a=a, b=b)

    def coverage_gaps(self, counters, tier):
        need = ["integer_payloads", "compatible_queries", "equivalent_queries", "conversion_link", "conversion_link_v2g", "conversion_trigger", "conversion_prepare", "conversion_to_units",
                "incompatible_refused", "equivalent_relabels", "true_conversions"]
        return [f"{k} never observed" for k in need if not counters.get(k)]


PROP = C17()
