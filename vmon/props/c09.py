"""C09 - output history is never dropped while needed and never grows unboundedly.

Differential monitor: the real Output (with 1-4 registered consumers, direct, behind pass-through
adapters or behind push-based time adapters) is driven with a random interleaving of publications
and per-consumer non-decreasing pulls; every pull is compared with a model that keeps the whole
history, and after every event the retained length is checked against the documented bound.
An icontract class invariant on Output (history times strictly increasing) is evaluated on every
public call.
"""
from fractions import Fraction as F

import icontract
import numpy as np

import finam as fm
from finam.adapters import LinearTime, NextTime, PreviousTime, Scale, StepTime

from .. import harness, slots
from ..model_slots import History
from ..runner import Outcome, Property


class InvariantBroken(Exception):
    pass


_INV = {"evals": 0}


def history_sorted(self):
    _INV["evals"] += 1
    ts = [e[0] for e in self.data]
    if getattr(self, "_static", False) or any(x is None for x in ts):
        return len(ts) <= 1
    return all(a < b for a, b in zip(ts, ts[1:]))


_installed = []


def install_invariant():
    if not _installed:
        icontract.invariant(history_sorted, error=InvariantBroken)(fm.Output)
        _installed.append(True)


def mk_adapter(kind):
    return {"scale": lambda: Scale(1.0), "probe": lambda: fm.adapters.CallbackProbe(lambda d, t: None),
            "next": NextTime, "prev": PreviousTime, "linear": LinearTime, "step": lambda: StepTime(0.5), "hold": harness.UserHold}[kind]()


# "hold": a user-defined push-based adapter (fetches at every notification, hands out the last data fetched); unlike the
# shipped time adapters it may fan out to several consumers
PUSH_BASED = ("next", "prev", "linear", "step", "hold")


class C09(Property):
    id = "C09"
    anchors = ('finam.sdk.output:Output._clear_data', 'finam.sdk.adapter:Adapter.pinged')
    technique = "differential monitor against an unlimited-history model on recorded push/pull interleavings; retained-length bound checked after every event; icontract class invariant on Output"
    rule = (
        "interleavings of publications (increasing times, random gaps) and pulls by 1-4 consumers with non-decreasing request times each, "
        "consumers direct / behind 1-2 pass-through adapters / behind one push-based time adapter (next, previous, linear, step) or a user-defined push-based adapter that fans out, long "
        "histories up to 400 events (quick) / 3000 (thorough); non-trivial = >=2 end points with diverging request times and >=1 eviction "
        "observed; distinct by (topology, event pattern hash)"
    )
    assumptions = (
        "values are unique publication ids, so the served publication is identified exactly",
        "consumers behind a push-based adapter are compared with the adapter's definition evaluated on the full history (see C11)",
    )
    cases = {"quick": 3000, "thorough": 60000}
    min_nontrivial = {"quick": 900, "thorough": 15000}

    def gen(self, rnd, i, tier):
        """topology: a tree below the output. nodes = adapters (parent -1 = the output);
        consumers hang below a node or the output; fan-out may happen at the output and at any
        adapter that is not (downstream of) a no-branch adapter."""
        ncons = rnd.randint(1, 4)
        nodes, cons = [], []
        for _ in range(ncons):
            r = rnd.random()
            parent = -1
            if r < 0.35:
                pass
            elif r < 0.75:
                # pass-through chain, possibly sharing an existing branching-capable node
                share = [j for j, nd in enumerate(nodes) if nd["branch_ok"]]
                if share and rnd.random() < 0.5:
                    parent = rnd.choice(share)
                for _ in range(rnd.randint(0 if parent >= 0 else 1, 2)):
                    kind = rnd.choice(["scale", "probe", "dfix", "dfix"])
                    nodes.append(dict(kind=kind, parent=parent, d=rnd.choice([0, 1, 2, 5, 9]) if kind == "dfix" else 0,
                                      branch_ok=(parent < 0 or nodes[parent]["branch_ok"])))
                    parent = len(nodes) - 1
            else:
                holds = [j for j, nd in enumerate(nodes) if nd["kind"] == "hold"]
                if holds and rnd.random() < 0.5:
                    parent = rnd.choice(holds)  # a second consumer below an existing user-defined push-based adapter
                else:
                    if rnd.random() < 0.3:
                        nodes.append(dict(kind="scale", parent=parent, d=0, branch_ok=True))
                        parent = len(nodes) - 1
                    kind = rnd.choice(PUSH_BASED)
                    nodes.append(dict(kind=kind, parent=parent, d=0, branch_ok=False))
                    parent = len(nodes) - 1
                if rnd.random() < 0.4:
                    kind = rnd.choice(["scale", "dfix"])
                    nodes.append(dict(kind=kind, parent=parent, d=rnd.choice([0, 1, 3]) if kind == "dfix" else 0, branch_ok=False))
                    parent = len(nodes) - 1
            cons.append(dict(parent=parent))
        long_run = rnd.random() < 0.15
        n = rnd.randint(150, 400 if tier == "quick" else 3000) if long_run else rnd.randint(10, 60)
        events = []
        t = 0
        last = [0] * ncons
        events.append(["push", 0])
        for _ in range(n):
            if rnd.random() < 0.06:
                events.append(["refuse", rnd.randrange(ncons)])
            elif rnd.random() < 0.45:
                t += rnd.choice([1, 1, 2, 3, 5, 8, 30])
                events.append(["push", t])
            else:
                c = rnd.randrange(ncons)
                if rnd.random() < 0.25:
                    c = 0  # make consumers diverge
                lo = last[c]
                if lo >= t:
                    tq = t
                else:
                    tq = rnd.randint(lo, t) if rnd.random() < 0.8 else t
                last[c] = tq
                events.append(["pull", c, tq])
        return dict(nodes=nodes, cons=cons, events=events, memory=rnd.choice([None, None, None, 0, 16, 40]), masked=rnd.random() < 0.3)

    def run(self, spec):
        install_invariant()
        out = Outcome()
        out.sample = dict(nodes=spec["nodes"], cons=spec["cons"], n_events=len(spec["events"]), first_events=spec["events"][:12])
        masked = bool(spec.get("masked"))
        if masked:
            # 1-D payload [id, id+0.5] with the second element masked: history entries are masked arrays
            info = fm.Info(time=slots.T0, grid=fm.NoGrid(data_shape=(2,)), units="", mask=np.array([False, True]))
        else:
            info = fm.Info(time=slots.T0, grid=fm.NoGrid(), units="")
        o = fm.Output(name="out", info=info)
        if spec.get("memory") is not None:
            import os

            os.makedirs("spill-c09", exist_ok=True)
            out.count("cases_with_memory_limit")
        ads = []
        for nd in spec["nodes"]:
            a = fm.adapters.DelayFixed(slots.timedelta(seconds=nd["d"])) if nd["kind"] == "dfix" else mk_adapter(nd["kind"])
            (o if nd["parent"] < 0 else ads[nd["parent"]]) >> a
            ads.append(a)
        inputs = []
        for k, c in enumerate(spec["cons"]):
            inp = fm.Input(name=f"in{k}", info=info.copy_with())
            (o if c["parent"] < 0 else ads[c["parent"]]) >> inp
            inputs.append(inp)
        if spec.get("memory") is not None:
            for slot in [o] + ads:
                slot.memory_limit, slot.memory_location = spec["memory"], "spill-c09"
        for inp in inputs:
            inp.ping()
        for inp in inputs:
            inp.exchange_info()

        def path(c):
            """adapter kinds from the consumer upstream to the output"""
            p, j = [], spec["cons"][c]["parent"]
            while j >= 0:
                p.append(spec["nodes"][j])
                j = spec["nodes"][j]["parent"]
            return p

        paths = [path(c) for c in range(len(inputs))]
        hist = History()
        ncons = len(inputs)
        # end points as the output sees them: the final input (direct / pass-through / delay) or
        # the push-based adapter on the path (which pulls at every notification)
        pb = [next((nd["kind"] for nd in paths[k] if nd["kind"] in PUSH_BASED), None) for k in range(ncons)]
        pbnode = [next((id(nd) for nd in paths[k] if nd["kind"] in PUSH_BASED), None) for k in range(ncons)]
        last_req = {}  # endpoint key -> last request time seen by the output
        endpoint = [("ada", pbnode[k]) if pb[k] else ("in", k) for k in range(ncons)]

        def shifted(c, tq):
            """request time after the fixed delays between consumer c and the output/push-based adapter"""
            for nd in paths[c]:
                if nd["kind"] in PUSH_BASED:
                    break
                if nd["kind"] == "dfix":
                    tq = max(tq - nd["d"], 0)
            return tq

        evictions = 0
        prev_len = 0
        before = _INV["evals"]
        maxlen = 0
        for ev in spec["events"]:
            if ev[0] == "push":
                t = ev[1]
                k = len(hist)
                o.push_data(np.array([float(k), float(k) + 0.5]) if masked else float(k), slots.t(t))
                hist.push(t, F(k))
                out.count("publications")
                for c in range(ncons):
                    if pb[c]:
                        last_req[endpoint[c]] = t  # push-based adapters pull at every notification
            elif ev[0] == "refuse":
                c = ev[1]
                if pb[c] is not None or any(nd["kind"] == "dfix" for nd in paths[c]):
                    continue
                try:
                    inputs[c].pull_data(slots.t(hist.newest + 3))
                    out.viol("future_request_served", f"consumer {c}: request beyond the newest publication served", spec=spec)
                    return out
                except fm.FinamTimeError:
                    out.count("refused_future_requests")
                continue
            else:
                _, c, tq = ev
                if not hist.in_range(tq):
                    continue
                if (len(hist) + c + tq) % 7 == 0 and pb[c] is None and not any(nd["kind"] == "dfix" for nd in paths[c]):
                    # a request beyond the newest publication is refused and must not count as this consumer's last request
                    try:
                        inputs[c].pull_data(slots.t(hist.newest + 3))
                        out.viol("future_request_served", f"consumer {c}: request beyond the newest publication served", spec=spec)
                        return out
                    except fm.FinamTimeError:
                        out.count("refused_future_requests")
                tq_orig, tq = tq, shifted(c, tq)
                try:
                    got = inputs[c].pull_data(slots.t(tq_orig))
                except (fm.FinamTimeError, fm.FinamNoDataError) as e:
                    out.viol("needed_history_dropped", f"consumer {c} ({[nd['kind'] for nd in paths[c]]}) pull at {tq}s refused: {e} although publications span [{hist.oldest},{hist.newest}] and its requests never decreased", spec=spec)
                    return out
                val = float(np.asarray(got.magnitude).ravel()[0])
                if pb[c] is None:
                    acc = {float(hist.v[i]) for i in hist.nearest(tq)}
                    ok = val in acc
                    exp = sorted(acc)
                else:
                    if pb[c] == "hold":
                        e = hist.v[-1]  # whatever was published last
                    elif pb[c] == "next":
                        e = hist.next_value(tq)
                    elif pb[c] == "prev":
                        e = hist.prev_value(tq)
                    elif pb[c] == "linear":
                        e = hist.linear(tq)
                    else:
                        e, boundary = hist.step(tq, 0.5)
                        if boundary:
                            out.notes.append("unconstrained: request exactly on the step position")
                            e = None
                    ok = e is None or abs(val - float(e)) <= 1e-9 * max(1.0, abs(float(e)))
                    exp = None if e is None else float(e)
                out.count("pulls_compared")
                if not ok:
                    out.viol("differs_from_unlimited_history", f"consumer {c} ({[nd['kind'] for nd in paths[c]]}) pull at {tq}s returned {val}, unlimited-history model says {exp}", spec=spec)
                    return out
                if pb[c] is None:
                    last_req[endpoint[c]] = tq
            n = len(o.data)
            maxlen = max(maxlen, n)
            if n < prev_len:
                evictions += 1
            prev_len = n
            if len(last_req) == len(set(endpoint)):
                tmin = min(last_req.values())
                bound = sum(1 for tp in hist.t if tp > tmin) + 1
                out.count("bound_checks")
                if n > bound:
                    out.viol("history_unbounded", f"after every end point pulled (slowest last request {tmin}s): {n} entries retained, bound is {bound} (publications newer than {tmin}s plus one)", spec=spec)
                    return out
            # retained entries must be a suffix of the publication history
            ts = [slots.sec(e[0]) for e in o.data]
            if ts != hist.t[len(hist.t) - len(ts):]:
                out.viol("history_not_suffix", f"retained times {ts[:5]}.. are not the newest publications", spec=spec)
                return out
        for slot in ads + [o]:
            slot.finalize()
        out.count("evictions", evictions)
        out.count("invariant_evaluations", _INV["evals"] - before)
        out.count("max_retained_len", 0)
        diverging = len({v for v in last_req.values()}) > 1
        if len(set(endpoint)) >= 2 and diverging and evictions >= 1:
            import hashlib

            h = hashlib.md5(repr(spec["events"]).encode()).hexdigest()[:10]
            out.key = repr([[nd["kind"] for nd in p] for p in paths]) + h
        if len(spec["events"]) > 150:
            out.count("long_histories")
        if any(nd["kind"] == "dfix" for nd in spec["nodes"]):
            out.count("cases_with_delay_adapter")
        parents = [nd["parent"] for nd in spec["nodes"]] + [c["parent"] for c in spec["cons"]]
        if any(parents.count(j) > 1 for j in range(len(spec["nodes"]))):
            out.count("cases_with_fanout_below_adapter")
        return out

    def coverage_gaps(self, counters, tier):
        need = ["publications", "pulls_compared", "bound_checks", "evictions", "invariant_evaluations", "long_histories",
                "cases_with_delay_adapter", "cases_with_fanout_below_adapter", "refused_future_requests"]
        return [f"{k} never observed" for k in need if not counters.get(k)]


PROP = C09()
