"""pytest plugin (validation aid, section 7.2 of DESIGN.md): run finam's own test-suite with the
in-place recorder wrappers and the icontract invariant on Output installed, and report how often
they were evaluated and whether any fired.

  cd /repo && PYTHONPATH=/verif:/verif/.deps /venv/bin/python -m pytest -q -p no:cacheprovider -p vmon.pytest_contracts tests
"""
import sys

sys.path.insert(1, "/verif/.deps")


def pytest_configure(config):  # pylint: disable=unused-argument
    from vmon import record
    from vmon.props import c09

    record.install()
    c09.install_invariant()


def pytest_terminal_summary(terminalreporter):
    from vmon import record
    from vmon.props import c09

    tr = terminalreporter
    tr.write_line(f"[vmon] Output invariant evaluations: {c09._INV['evals']}")  # pylint: disable=protected-access
    tr.write_line(f"[vmon] recorder wrapper evaluations: {sum(record.REC.counts.values())} over {len(record.REC.counts)} event kinds")
