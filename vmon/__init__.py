"""vmon: runtime monitors and reference-model oracles for finam (see /verif/DESIGN.md)."""
