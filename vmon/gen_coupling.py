"""Generators of composition specs (plain JSON): graphs, step sequences, start offsets, adapter
chains in every ordering, pull-based components spliced into links, listing/link orders.

Chains are listed from the SOURCE side to the CONSUMER side.
"""
import itertools
import math

STEPS = [1, 2, 3, 5, 7, 8, 12]
PUSH_DRAWN = ["lin", "next", "prev", "step", "avg", "sum"]
PUSH = PUSH_DRAWN + ["hold", "holdnd"]  # "hold*": user-defined push-based adapters, only placed on request (user_adapters=...)
INTEG = ("avg", "sum")
PASS = ["scale", "probe"]


def draw_steps(rnd):
    r = rnd.random()
    if r < 0.55:
        return [rnd.choice(STEPS)]
    if r < 0.9:
        return [rnd.choice(STEPS) for _ in range(rnd.randint(2, 3))]
    return [rnd.choice([1.5, 2.5, 0.5, 7, 5])]


def draw_adapter(rnd, kinds):
    k = rnd.choice(kinds)
    if k == "dfix":
        return ["dfix", rnd.choice([0, 1, 2, 4, 9, 13])] + (["user"] if rnd.random() < 0.25 else [])
    if k == "dpull":
        return ["dpull", rnd.choice([1, 2, 3]), rnd.choice([0, 0, 1, 3])]
    if k == "step":
        return ["step", rnd.choice([0.0, 0.5, 1.0, 0.3])]
    if k == "avg":
        return ["avg"] if rnd.random() < 0.6 else ["avg", rnd.choice([0.0, 0.5, 1.0])]
    if k == "sum":
        return ["sum"] if rnd.random() < 0.5 else ["sum", rnd.choice([None, 0.5])]
    return [k]


def draw_chain(rnd, maxlen=3, allow_push=True, allow_delay=True, allow_dpush=True):
    """0..maxlen adapters in arbitrary order, respecting only: no delay adapter downstream of an
    integration adapter on one link (that combination is outside C12's p0<p1 domain)"""
    n = rnd.choice([0, 1, 1, 2, 2, 3][: 2 * maxlen])
    kinds = list(PASS)
    if allow_push:
        kinds += PUSH_DRAWN
    if allow_delay:
        kinds += ["dfix", "dfix", "dpull"] + (["dpush"] if allow_dpush else [])
    chain = []
    for _ in range(n):
        for _try in range(10):
            a = draw_adapter(rnd, kinds)
            if a[0] in ("dfix", "dpull", "dpush") and any(c[0] in INTEG for c in chain):
                continue
            chain.append(a)
            break
    return chain


def split_delay(rnd, total, parts):
    """split a total delay (hours) into `parts` non-negative integers summing to total"""
    cuts = sorted(rnd.randint(0, total) for _ in range(parts - 1))
    vals, prev = [], 0
    for c in cuts + [total]:
        vals.append(c - prev)
        prev = c
    return vals


def delay_chain(rnd, total, allow_push=True):
    """chain whose fixed delays add up to `total` and are all *effective* (push-based adapters, if
    any, sit on the source side of every delay adapter); delays split over 1-3 adapters"""
    parts = rnd.choice([1, 1, 2, 3])
    vals = split_delay(rnd, total, parts)
    chain = []
    if allow_push and rnd.random() < 0.35:
        chain.append(draw_adapter(rnd, ["lin", "next", "prev", "step"]))
    for v in vals:
        if rnd.random() < 0.3:
            chain.append([rnd.choice(PASS)])
        chain.append(["dfix", v] + (["user"] if rnd.random() < 0.25 else []))  # "user": written from the public interfaces only
    if rnd.random() < 0.3:
        chain.append([rnd.choice(PASS)])
    return chain


def effective_fixed_delay(chain):
    """sum of fixed delays that take effect (downstream of the last push-based adapter);
    None if an effective dependency breaker (DelayToPush) is on the link"""
    last_push = max([i for i, a in enumerate(chain) if a[0] in PUSH], default=-1)
    tot = 0
    for i, a in enumerate(chain):
        if i > last_push:
            if a[0] == "dpush":
                return None
            if a[0] == "dfix":
                tot += a[1]
    return tot


def simple_cycles(edges):
    adj = {}
    for s, d in edges:
        adj.setdefault(s, []).append(d)
    out = []
    nodes = sorted({x for e in edges for x in e})

    def dfs(start, v, path, seen):
        for w in adj.get(v, []):
            if w == start:
                out.append(list(path))
            elif w > start and w not in seen:
                dfs(start, w, path + [w], seen | {w})

    for s in nodes:
        dfs(s, s, [s], {s})
    return out


def gen_dag(rnd, *, cycle=None, pull_prob=0.25, parallel_prob=0.25, offsets=True, max_comps=5, orders=True, long_end=False, shipped=0.0, sparse=0.12, trunk_prob=0.2):
    """random coupling graph of time components (DAG, optionally one delay-resolved back edge),
    pull-based components spliced into links. cycle in (None, 'sufficient')"""
    n = rnd.randint(2, max_comps)
    comps = []
    for c in range(n):
        comps.append(dict(name=f"c{c}", type="time", start=rnd.choice([0, 0, 0, 3, 5]) if offsets else 0, steps=draw_steps(rnd),
                          nin=0, nout=1, initial_pull=rnd.random() < 0.8))
    if cycle:
        # cycles are explored with equal start times only: with start offsets the clamp of delayed
        # requests to the start time can make any delay budget insufficient (see DESIGN, observation O1)
        for c in comps:
            c["start"] = 0
    if min(c["start"] for c in comps) != 0:
        comps[rnd.randrange(n)]["start"] = 0
    edges = []
    for j in range(1, n):
        for i in rnd.sample(range(j), k=min(j, rnd.choice([1, 1, 2]))):
            edges.append([i, j, "fwd"])
    if edges and rnd.random() < parallel_prob:
        e = rnd.choice(edges)
        edges.append([e[0], e[1], "fwd"])
    if cycle:
        j = rnd.randrange(0, n - 1)
        i = rnd.randrange(j + 1, n)
        edges.append([i, j, "back"])
    links = []
    npull = 0
    maxstep = [max(c["steps"]) for c in comps]
    for (i, j, kind) in edges:
        if kind == "back":
            need = int(sum(maxstep) + 0.999) + rnd.choice([0, 1, 5])
            chain = delay_chain(rnd, need)
        else:
            chain = draw_chain(rnd)
        dst_in = comps[j]["nin"]
        comps[j]["nin"] += 1
        if rnd.random() < pull_prob:
            # splice 1-2 pull-based components into the link; downstream of a pull-based
            # component no push-based adapter may follow (dead link)
            cut = rnd.randint(0, len(chain))
            # DelayToPush relies on notifications, which a pull-based component does not forward (F19)
            up, down = chain[:cut], [a for a in chain[cut:] if a[0] not in PUSH and a[0] != "dpush"]
            # keep the total effective delay of a back edge intact
            if kind == "back":
                up, down = [a for a in chain if a[0] in PUSH], [a for a in chain if a[0] not in PUSH]
            src = [f"c{i}", 0]
            nchain = rnd.choice([1, 1, 2])
            for kk in range(nchain):
                # all but the last pull-based component of a chain derive their output metadata from
                # their input (neither side of a pull->pull link could provide a time otherwise)
                p = dict(name=f"p{npull}", type="pull", nin=1, nout=1, eager=rnd.random() < 0.5,
                         info="rule" if kk < nchain - 1 or rnd.random() < 0.3 else "target")
                npull += 1
                comps.append(p)
                links.append(dict(src=src, dst=[p["name"], 0], chain=up))
                up = [a for a in draw_chain(rnd, maxlen=1, allow_push=False, allow_delay=False)]
                src = [p["name"], 0]
            twin = nchain == 1 and kind != "back" and rnd.random() < 0.3
            if twin:
                # stateful (to-pull) and integration adapters serve one request per consumer step: not below a fan-out
                for ln2 in links:
                    if ln2["dst"][0] == src[0]:
                        ln2["chain"] = [a for a in ln2["chain"] if a[0] not in ("dpull", "avg", "sum", "dpush")]
                        ln2["stateless_only"] = True
                # the pull-based component's output feeds two inputs of the consumer: first a delayed one
                # (delay <= smallest consumer step keeps the requests reaching the producer monotone), then a direct one
                down = [["dfix", rnd.choice([0.5, min(comps[j]["steps"])])]]
            links.append(dict(src=src, dst=[f"c{j}", dst_in], chain=down))
            if twin:
                src2 = src
                if rnd.random() < 0.5:
                    # second link from a second output of the same pull-based component
                    p["nout"] = 2
                    src2 = [src[0], 1]
                links.append(dict(src=src2, dst=[f"c{j}", comps[j]["nin"]], chain=[]))
                comps[j]["nin"] += 1
        else:
            links.append(dict(src=[f"c{i}", 0], dst=[f"c{j}", dst_in], chain=chain))
    if not cycle:
        # look-ahead links: a negative fixed delay asks the source for data *ahead* of the consumer's time
        # (only where the consumer does not pull initially: at connect nothing is published ahead yet)
        byname = {c["name"]: c for c in comps}
        for ln in links:
            dst = byname[ln["dst"][0]]
            if dst["type"] == "time" and not dst.get("initial_pull", True) and ln["src"][0].startswith("c") and rnd.random() < 0.35 \
                    and not ln.get("stateless_only") and not any(a[0] in ("avg", "sum", "dpull", "dpush") for a in ln["chain"]):
                ln["chain"].append(["dfix", -rnd.choice([1, 2, 3])])
    trunks = {}
    if rnd.random() < trunk_prob:
        # fan-out below an adapter: links leaving the same time-component output share a trunk of
        # branch-capable adapters (pass-through / fixed delay); their own chains continue below it
        by_src = {}
        for k, ln in enumerate(links):
            if ln["src"][0].startswith("c") and not ln.get("stateless_only"):
                by_src.setdefault(tuple(ln["src"]), []).append(k)
        cands = [v for v in by_src.values() if len(v) >= 2]
        if not cands and links:
            # create a second consumer link for some output so that a fan-out exists
            k = rnd.choice([k for k, ln in enumerate(links) if ln["src"][0].startswith("c")] or [None])
            if k is not None:
                ln = links[k]
                tcs = [c for c in comps if c["type"] == "time" and c["name"] != ln["src"][0]]
                later = [c for c in tcs if int(c["name"][1:]) > int(ln["src"][0][1:])]
                if later:
                    d = rnd.choice(later)
                    links.append(dict(src=list(ln["src"]), dst=[d["name"], d["nin"]], chain=draw_chain(rnd, maxlen=2)))
                    d["nin"] += 1
                    cands = [[k, len(links) - 1]]
        if cands:
            grp = rnd.choice(cands)
            tchain = [rnd.choice([["scale"], ["probe"], ["dfix", rnd.choice([0, 1, 2])]]) for _ in range(rnd.randint(1, 2))]
            trunks["0"] = dict(src=list(links[grp[0]]["src"]), chain=tchain)
            for k in grp:
                links[k]["trunk"] = "0"
                # a delay in the trunk sits nearer to the source than the link's own adapters: keep the
                # 'no delay downstream of an integration adapter' rule intact (it is the other way round here)
    if not cycle:
        for c in comps:
            if c["type"] == "time" and c["nout"] and rnd.random() < sparse:
                c["publish_every"] = rnd.choice([2, 3])  # publishes only every 2nd/3rd step
                c["bad_records"] = rnd.random() < 0.5  # ... and tries to publish a malformed record in between (refused)
    if shipped:
        for c in comps:
            if c["type"] == "time" and rnd.random() < shipped and "publish_every" not in c:
                c["impl"] = "shipped"  # CallbackGenerator / CallbackComponent / DebugConsumer in this role
                c["steps"] = [c["steps"][0]]
    order = list(range(len(comps)))
    link_order = list(range(len(links)))
    if orders:
        rnd.shuffle(order)
        rnd.shuffle(link_order)
    start = 0
    horizon = rnd.choice([10, 24, 37, 60]) if not long_end else rnd.choice([60, 120])
    end = start + horizon + rnd.choice([0, 0, 0.5, 1])
    # the composition may also be left to find its start time itself (the earliest start of its time components)
    auto = rnd.random() < 0.3 and min(c["start"] for c in comps if c["type"] == "time") == start
    return dict(comps=comps, links=links, trunks=trunks, order=order, link_order=link_order, start=start, end=end, auto_start=auto,
                meta=dict(n_time=n, cyclic=bool(cycle), n_pull=npull, n_trunks=len(trunks)))


def gen_ring(rnd, klass=None, pull_prob=0.2, meta_cycle=False):
    """ring of 2-5 components (optionally with a chord and a tail); delay class in
    {'none','sufficient','between'} relative to sum of the largest steps on each cycle"""
    n = rnd.randint(2, 5)
    pool = [1, 2, 3, 5, 7, 8]
    comps = [dict(name=f"c{c}", type="time", start=0, steps=rnd.choice([[rnd.choice(pool)], [rnd.choice(pool) for _ in range(2)]]),
                  nin=0, nout=1, initial_pull=False) for c in range(n)]
    edges = [((i + 1) % n, i) for i in range(n)]  # i consumes i+1
    if n > 2 and rnd.random() < 0.5:
        a, b = rnd.sample(range(n), 2)
        if (a, b) not in edges:
            edges.append((a, b))
    if rnd.random() < 0.3:
        comps.append(dict(name=f"c{n}", type="time", start=0, steps=[rnd.choice(pool)], nin=0, nout=1, initial_pull=rnd.random() < 0.5))
        edges.append((rnd.randrange(n), n))
    if rnd.random() < 0.3:
        # a feeder: reads nothing, feeds one ring member (it can always connect, whatever happens to the ring)
        k = len(comps)
        comps.append(dict(name=f"c{k}", type="time", start=0, steps=[rnd.choice(pool)], nin=0, nout=1, initial_pull=False))
        edges.append((k, rnd.randrange(n)))
    cycles = simple_cycles(edges)
    klass = klass or rnd.choice(["none", "sufficient", "between"])
    maxstep = [max(c["steps"]) for c in comps]
    delay = {e: 0 for e in edges}
    if klass != "none":
        for cyc in cycles:
            ce = [(cyc[k], cyc[(k + 1) % len(cyc)]) for k in range(len(cyc))]
            need = sum(maxstep[c] for c in cyc)
            have = sum(delay[e] for e in ce)
            if klass == "sufficient":
                if have < need:
                    delay[rnd.choice(ce)] += need - have + rnd.choice([0, 1])
            elif have == 0:
                delay[rnd.choice(ce)] += rnd.randint(1, max(1, need - 1))
    links = []
    npull = 0
    for (s, d) in edges:
        if delay[(s, d)] > 0:
            chain = delay_chain(rnd, delay[(s, d)])
        else:
            # no effective delay: pass-through / push-based adapters, or delays made ineffective
            chain = [draw_adapter(rnd, PASS + ["lin", "next"])] if rnd.random() < 0.4 else []
            if klass == "none" and rnd.random() < 0.25:
                # a delay upstream of a push-based adapter does not resolve anything
                chain = [["dfix", rnd.choice([5, 20, 40])], [rnd.choice(["lin", "next", "prev"])]]
        dst_in = comps[d]["nin"]
        comps[d]["nin"] += 1
        if rnd.random() < pull_prob:
            p = dict(name=f"p{npull}", type="pull", nin=1, nout=1, eager=rnd.random() < 0.5)
            npull += 1
            comps.append(p)
            last = max([k for k, a in enumerate(chain) if a[0] in PUSH], default=-1)
            up, down = chain[: last + 1], chain[last + 1:]
            links.append(dict(src=[f"c{s}", 0], dst=[p["name"], 0], chain=up))
            links.append(dict(src=[p["name"], 0], dst=[f"c{d}", dst_in], chain=down))
        else:
            links.append(dict(src=[f"c{s}", 0], dst=[f"c{d}", dst_in], chain=chain))
    # ground truth from the generated spec
    tot = {e: effective_fixed_delay(_edge_chain(links, e)) for e in edges}

    def cyc_tot(cyc):
        ce = [(cyc[k], cyc[(k + 1) % len(cyc)]) for k in range(len(cyc))]
        return sum(tot[e] for e in ce), sum(maxstep[c] for c in cyc)

    all_suff = all(t >= need for t, need in map(cyc_tot, cycles))
    any_none = any(t == 0 for t, need in map(cyc_tot, cycles))
    expect = "ok" if all_suff else ("circular" if any_none else "either")
    if meta_cycle:
        # every ring component derives its output metadata from its ring input: the cycle is already
        # unresolvable at the metadata stage of connect(), whatever the delays
        for c in comps[:n]:
            c["info_from_input"] = 0
            c["late_in_info"] = rnd.random() < 0.6
        expect, klass = "circular", "meta_cycle"
    order = list(range(len(comps)))
    rnd.shuffle(order)
    link_order = list(range(len(links)))
    rnd.shuffle(link_order)
    return dict(comps=comps, links=links, order=order, link_order=link_order, start=0, end=rnd.choice([20, 40]) + rnd.choice([0, 0.5]),
                meta=dict(klass=klass, expect=expect, n_ring=n, cycles=len(cycles), n_pull=npull))


def _edge_chain(links, e):
    """concatenated chain (source->consumer) of the links that realise time-component edge e,
    following pull-based components in between"""
    s, d = f"c{e[0]}", f"c{e[1]}"
    for ln in links:
        if ln["src"][0] == s and (ln["dst"][0] == d):
            return ln["chain"]
    for ln in links:
        if ln["src"][0] == s and ln["dst"][0].startswith("p"):
            chain = list(ln["chain"])
            cur = ln["dst"][0]
            while True:
                nxt = next(l2 for l2 in links if l2["src"][0] == cur)
                chain += nxt["chain"]
                if nxt["dst"][0] == d:
                    return chain
                if not nxt["dst"][0].startswith("p"):
                    break
                cur = nxt["dst"][0]
    return []


def permutations_of(spec, rnd, max_orders=24):
    """listing/link-order permutations of one spec (all for <=4 components)"""
    n = len(spec["comps"])
    m = len(spec["links"])
    if n <= 4:
        orders = list(itertools.permutations(range(n)))
    else:
        orders = [tuple(rnd.sample(range(n), n)) for _ in range(12)]
    rnd.shuffle(orders)
    out = []
    for o in orders[:max_orders]:
        lo = list(range(m))
        rnd.shuffle(lo)
        out.append((list(o), lo))
    return out


def gen_two_way(rnd):
    """two-way coupling whose initial state is derived from a forcing:
    G -> S.in0 ; S -> F ; F -> delay -> S.in1 ; S publishes after pulling in0 only, F after pulling S.
    optional extra consumers of any output"""
    stp = lambda: [rnd.choice([1, 2, 3, 5])]
    comps = [
        dict(name="c0", type="time", start=0, steps=stp(), nin=0, nout=1, initial_pull=True),
        dict(name="c1", type="time", start=0, steps=stp(), nin=2, nout=1, initial_pull=True, push_deps=[0]),
        dict(name="c2", type="time", start=0, steps=stp(), nin=1, nout=1, initial_pull=True, push_deps=[0]),
    ]
    need = int(sum(max(c["steps"]) for c in comps)) + rnd.choice([0, 1])
    links = [
        dict(src=["c0", 0], dst=["c1", 0], chain=draw_chain(rnd, maxlen=1, allow_delay=False)),
        dict(src=["c1", 0], dst=["c2", 0], chain=draw_chain(rnd, maxlen=1, allow_delay=False)),
        dict(src=["c2", 0], dst=["c1", 1], chain=delay_chain(rnd, need, allow_push=False)),
    ]
    for k in range(rnd.choice([0, 0, 1, 2])):
        src = rnd.choice(["c0", "c1", "c2"])
        comps.append(dict(name=f"c{3 + k}", type="time", start=0, steps=stp(), nin=1, nout=1, initial_pull=rnd.random() < 0.7))
        links.append(dict(src=[src, 0], dst=[f"c{3 + k}", 0], chain=draw_chain(rnd, maxlen=1, allow_delay=False)))
    order = list(range(len(comps)))
    rnd.shuffle(order)
    link_order = list(range(len(links)))
    rnd.shuffle(link_order)
    return dict(comps=comps, links=links, order=order, link_order=link_order, start=0, end=rnd.choice([10, 20]),
                meta=dict(n_time=len(comps), cyclic=True, n_pull=0, two_way=True))


def gen_dpull_ring(rnd):
    """two components coupled both ways, the cycle resolved by a delay-to-pull adapter: the consumer
    behind it uses data from n of its own pulls ago; sufficient when n * step_A >= step_A + step_B"""
    sa, sb = rnd.choice([(1, 2), (1, 1), (2, 3), (2, 1), (3, 5), (1, 3)])
    n = math.ceil((sa + sb) / sa) + rnd.choice([0, 0, 1])
    comps = [dict(name="c0", type="time", start=0, steps=[sa], nin=1, nout=1, initial_pull=False),
             dict(name="c1", type="time", start=0, steps=[sb], nin=1, nout=1, initial_pull=rnd.random() < 0.5)]
    pre = [[rnd.choice(PASS)]] if rnd.random() < 0.3 else []
    links = [dict(src=["c1", 0], dst=["c0", 0], chain=pre + [["dpull", n, rnd.choice([0, 0, 1])]]),
             dict(src=["c0", 0], dst=["c1", 0], chain=draw_chain(rnd, maxlen=1, allow_delay=False, allow_push=rnd.random() < 0.5))]
    if rnd.random() < 0.4:
        comps.append(dict(name="c2", type="time", start=0, steps=[rnd.choice([1, 2, 5])], nin=1, nout=1, initial_pull=True))
        links.append(dict(src=[rnd.choice(["c0", "c1"]), 0], dst=["c2", 0], chain=[]))
    order = list(range(len(comps)))
    rnd.shuffle(order)
    link_order = list(range(len(links)))
    rnd.shuffle(link_order)
    return dict(comps=comps, links=links, order=order, link_order=link_order, start=0, end=rnd.choice([15, 30]),
                meta=dict(klass="dpull_ring", expect="ok", n_ring=2, cycles=1, n_pull=0))


def gen_branching(rnd):
    """one output feeding (a) a trunk of pass-through adapters that fans out to two consumers and (b) a third
    consumer through a no-branch (time interpolation) adapter: only the order of link creation varies"""
    st = lambda: [rnd.choice([1, 2, 3])]
    comps = [dict(name="c0", type="time", start=0, steps=st(), nin=0, nout=1, initial_pull=True)]
    comps += [dict(name=f"c{k}", type="time", start=0, steps=st(), nin=1, nout=1, initial_pull=rnd.random() < 0.7) for k in (1, 2, 3)]
    trunks = {"0": dict(src=["c0", 0], chain=[["scale"]] + ([["probe"]] if rnd.random() < 0.4 else []))}
    links = [dict(src=["c0", 0], dst=["c1", 0], chain=[], trunk="0"),
             dict(src=["c0", 0], dst=["c2", 0], chain=[["scale"]] if rnd.random() < 0.5 else [], trunk="0"),
             dict(src=["c0", 0], dst=["c3", 0], chain=[[rnd.choice(["lin", "next", "prev", "step"])]] + ([["scale"]] if rnd.random() < 0.3 else []))]
    order = list(range(4))
    rnd.shuffle(order)
    link_order = list(range(3))
    rnd.shuffle(link_order)
    return dict(comps=comps, links=links, trunks=trunks, order=order, link_order=link_order, start=0, end=rnd.choice([6, 12]),
                meta=dict(n_time=4, cyclic=False, n_pull=0, n_trunks=1, klass="branching"))


def with_user_adapters(spec, rnd, prob=0.5):
    """replace some shipped push-based time adapters by a user-defined push-based adapter (same position on the
    link, so delays keep their effect); such links deliver 'the last published data', which makes values depend
    on the schedule - only for properties that judge scheduling, not values"""
    for ln in spec["links"]:
        for a in ln["chain"]:
            if a[0] in ("lin", "next", "prev", "step") and rnd.random() < prob:
                a[:] = ["hold"]
    return spec


def gen_holdnd_ring(rnd):
    """a ring without any delay, broken only by a user-defined adapter that is push-based and declares that it breaks
    the scheduling dependency: must run"""
    for _ in range(20):
        spec = gen_ring(rnd, klass="none", pull_prob=0.0)
        if spec["meta"]["cycles"] == 1:
            break
    ring = [ln for ln in spec["links"] if int(ln["src"][0][1:]) < spec["meta"]["n_ring"] and int(ln["dst"][0][1:]) < spec["meta"]["n_ring"]]
    ln = rnd.choice(ring)
    ln["chain"] = ([[rnd.choice(PASS)]] if rnd.random() < 0.3 else []) + [["holdnd"]] + ([[rnd.choice(PASS)]] if rnd.random() < 0.3 else [])
    spec["meta"].update(klass="holdnd_ring", expect="ok" if spec["meta"]["cycles"] == 1 else "either")
    return spec


def with_delay_below_integration(spec, rnd):
    """put a fixed delay directly downstream of an integration adapter on some links (C01's quantifier ranges over
    every ordering of adapters; on the unchanged tree this ordering is known finding F22)"""
    done = 0
    for ln in spec["links"]:
        pos = [k for k, a in enumerate(ln["chain"]) if a[0] in INTEG]
        if pos and not ln.get("trunk") and rnd.random() < 0.7:
            ln["chain"].insert(pos[-1] + 1, ["dfix", rnd.choice([1, 2, 4, 13])])
            done += 1
    if not done:
        cands = [ln for ln in spec["links"] if not ln.get("trunk") and not ln.get("stateless_only") and not ln["src"][0].startswith("p") and not ln["dst"][0].startswith("p")]
        if cands:
            ln = rnd.choice(cands)
            ln["chain"] = [[rnd.choice(INTEG)], ["dfix", rnd.choice([1, 2, 4, 13])]] + [a for a in ln["chain"] if a[0] in PASS]
            done = 1
    spec["meta"]["integ_before_delay"] = bool(done)
    return spec
