"""Independent grid oracle: closed-form coordinates of every data element of a structured grid,
computed from the constructor arguments only (never from finam's point/cell generators), plus
the located-value encoding used by C08/C15/C16/C18."""
import itertools

import numpy as np

import finam as fm

SPACING = (1.0, 2.0, 0.5)
ORIGIN = (10.0, -3.0, 7.0)


def layouts(dim):
    for order in "FC":
        for rev in (False, True):
            for inc in itertools.product((True, False), repeat=dim):
                yield dict(order=order, reversed=rev, increase=list(inc))


def rect_axes(dims, variant=0):
    """non-uniform increasing axes, deterministic in dims"""
    axes = []
    for a, n in enumerate(dims):
        steps = [(0.5, 1.0, 2.0, 1.5)[(j + a + variant) % 4] for j in range(n)]
        axes.append(ORIGIN[a] + np.cumsum(steps) - steps[0])
    return axes


def base_axes(spec):
    """increasing point axes in xyz order, from constructor arguments"""
    dims = spec["dims"]
    if spec.get("explicit_axes"):
        return [np.array(a, dtype=float) for a in spec["explicit_axes"]]
    if spec["cls"] == "rect":
        return rect_axes(dims, spec.get("variant", 0))
    if spec["cls"] == "esri":
        cs = spec.get("cellsize", 1.5)
        return [spec.get("xll", 3.0) + cs * np.arange(dims[0]), spec.get("yll", -2.0) + cs * np.arange(dims[1])]
    sp = spec.get("spacing", SPACING)
    og = spec.get("origin", ORIGIN)
    return [og[a] + sp[a] * np.arange(n) for a, n in enumerate(dims)]


def make_grid(spec):
    dims = tuple(spec["dims"])
    dim = len(dims)
    crs = dict(crs=spec["crs"]) if spec.get("crs") else {}
    if spec["cls"] == "esri":
        return fm.EsriGrid(
            ncols=dims[0] - 1, nrows=dims[1] - 1, cellsize=spec.get("cellsize", 1.5),
            xllcorner=spec.get("xll", 3.0), yllcorner=spec.get("yll", -2.0), order=spec["order"], **crs,
        )
    kw = dict(order=spec["order"], axes_reversed=spec["reversed"], data_location=spec["location"], **crs)
    if spec["cls"] == "uniform":
        return fm.UniformGrid(
            dims, spacing=spec.get("spacing", SPACING)[:dim], origin=spec.get("origin", ORIGIN)[:dim],
            axes_increase=spec["increase"], **kw,
        )
    axes = [ax if inc else ax[::-1] for ax, inc in zip(base_axes(spec), spec["increase"])]
    return fm.RectilinearGrid([np.array(a, dtype=float) for a in axes], **kw)


def norm_spec(spec):
    """fill in what the class fixes (ESRI layout) so the oracle can be evaluated"""
    s = dict(spec)
    if s["cls"] == "esri":
        s.update(reversed=True, increase=[True, False], location="CELLS")
    return s


def data_axis_values(spec):
    """per spatial axis: coordinates of the data elements in *data direction*"""
    s = norm_spec(spec)
    vals = []
    for a, ax in enumerate(base_axes(s)):
        ax = np.asarray(ax, dtype=float)
        if s["location"] == "CELLS" and len(ax) > 1:
            ax = (ax[:-1] + ax[1:]) / 2
        if not s["increase"][a] and len(ax) > 1:
            ax = ax[::-1]
        vals.append(ax)
    return vals


def data_shape(spec):
    s = norm_spec(spec)
    shp = [len(v) for v in data_axis_values(s)]
    return tuple(shp[::-1] if s["reversed"] else shp)


def coord_arrays(spec):
    """list (xyz order) of arrays in data shape: coordinate of the element at each multi-index"""
    s = norm_spec(spec)
    vals = data_axis_values(s)
    dim = len(vals)
    shp = data_shape(s)
    out = []
    for a in range(dim):
        k = dim - 1 - a if s["reversed"] else a
        view = [1] * dim
        view[k] = len(vals[a])
        out.append(np.broadcast_to(vals[a].reshape(view), shp).copy())
    return out


WEIGHTS = (1.0, 1e3, 1e6)


def encode_coords(coords):
    """injective located value: x + 1e3 y + 1e6 z (coords: list of arrays in xyz order)"""
    v = 0.0
    for a, c in enumerate(coords):
        v = v + WEIGHTS[a] * np.asarray(c, dtype=float)
    return v


def encode_points(pts):
    pts = np.asarray(pts, dtype=float)
    return sum(WEIGHTS[a] * pts[:, a] for a in range(pts.shape[1]))


def located(spec):
    """array in the grid's data shape whose value encodes the coordinate of its own element"""
    return encode_coords(coord_arrays(spec))


def random_structured_spec(rnd, dim=None, classes=("uniform", "rect", "esri"), lens=(2, 3, 4), location=None):
    cls = rnd.choice(classes)
    if cls == "esri":
        dims = [rnd.choice(lens) + 0 for _ in range(2)]
        dims = [max(2, d) for d in dims]
        return dict(cls="esri", dims=dims, order=rnd.choice("FC"), location="CELLS", reversed=True, increase=[True, False])
    dim = dim or rnd.randint(1, 3)
    dims = [rnd.choice(lens) for _ in range(dim)]
    return dict(
        cls=cls, dims=dims, order=rnd.choice("FC"), reversed=rnd.random() < 0.5,
        increase=[rnd.random() < 0.6 for _ in range(dim)], location=location or rnd.choice(["CELLS", "POINTS"]),
    )
