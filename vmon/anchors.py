"""Optional evidence tap: count how often the code the properties are anchored in actually ran
during a check (sys.monitoring PY_START on the anchored functions only, so the overhead is small).
Never used for a verdict; a renamed/missing anchor only degrades the evidence detail."""
import importlib
import sys

TOOL = 3  # a free tool id (0-5); profiler/debugger ids are left alone
COUNTS = {}
_names = {}
_state = {"on": False}


def _resolve(spec):
    mod, qual = spec.split(":")
    obj = importlib.import_module(mod)
    for part in qual.split("."):
        obj = getattr(obj, part)
    obj = getattr(obj, "fget", obj)  # properties
    obj = getattr(obj, "__wrapped__", obj)  # recorder wrappers keep the original here
    return obj.__code__


def start(specs):
    mon = getattr(sys, "monitoring", None)
    if mon is None or _state["on"]:
        return []
    missing = []
    try:
        mon.use_tool_id(TOOL, "vmon-anchors")
    except ValueError:
        return ["tool id in use"]

    def on_start(code, _offset):
        COUNTS[_names[code]] = COUNTS.get(_names[code], 0) + 1

    mon.register_callback(TOOL, mon.events.PY_START, on_start)
    for spec in specs:
        try:
            code = _resolve(spec)
        except (ImportError, AttributeError):
            missing.append(spec)
            continue
        _names[code] = spec
        COUNTS.setdefault(spec, 0)
        mon.set_local_events(TOOL, code, mon.events.PY_START)
    _state["on"] = True
    return missing


def snapshot():
    return dict(COUNTS)
