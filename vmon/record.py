"""In-place recorder on finam's public interface methods (installed once per process).

The wrappers replace methods on the real classes, so every caller (the scheduler, adapters,
components, references bound earlier to the class) goes through them. Events are delivered to
the listeners registered by the property monitor for the current case; with no listeners the
wrappers only count evaluations (zero evaluations of a deciding wrapper => inconclusive).
"""
import functools

import finam as fm
from finam.adapters.time_integration import TimeIntegrationAdapter
from finam.sdk.adapter import Adapter, TimeDelayAdapter
from finam.sdk.component import Component
from finam.sdk.input import CallbackInput, Input
from finam.sdk.output import CallbackOutput, Output


class Rec:
    def __init__(self):
        self.counts = {}
        self.listeners = {}  # event name -> list of callables
        self.update_stack = []  # components whose update()/connect() is running
        self.installed = False

    def reset(self):
        self.listeners = {}
        self.update_stack = []

    def on(self, name, fn):
        self.listeners.setdefault(name, []).append(fn)

    def emit(self, name, *args):
        self.counts[name] = self.counts.get(name, 0) + 1
        for fn in self.listeners.get(name, ()):
            fn(*args)


REC = Rec()


def _wrap(cls, meth, before=None, after=None, error=None, push=False):
    orig = cls.__dict__[meth]
    if getattr(orig, "_vmon", False):
        return

    @functools.wraps(orig)
    def w(self, *a, **k):
        if before:
            REC.emit(before, self, *a)
        if push:
            REC.update_stack.append((meth, self))
        try:
            r = orig(self, *a, **k)
        except BaseException as e:
            if error:
                REC.emit(error, self, e, *a)
            raise
        finally:
            if push:
                REC.update_stack.pop()
        if after:
            REC.emit(after, self, r, *a)
        return r

    w._vmon = True
    setattr(cls, meth, w)


def install():
    if REC.installed:
        return
    REC.installed = True
    _wrap(Component, "update", before="update_entry", after="update_exit", error="update_error", push=True)
    _wrap(Component, "connect", before="connect_entry", after="connect_exit", error="connect_error", push=True)
    _wrap(Component, "initialize", before="initialize_entry")
    _wrap(Component, "validate", before="validate_entry")
    _wrap(Component, "finalize", before="finalize_entry", after="finalize_exit")
    _wrap(Output, "get_data", before="out_get_data", after="out_get_data_ret", error="out_get_data_err")
    _wrap(CallbackOutput, "get_data", before="cb_get_data", after="cb_get_data_ret", error="cb_get_data_err")
    _wrap(Output, "push_data", before="out_push_data", after="out_push_data_ret", error="out_push_data_err")
    _wrap(Output, "finalize", before="out_finalize")
    _wrap(Output, "get_info", before="out_get_info", after="out_get_info_ret", error="out_get_info_err")
    _wrap(Input, "pull_data", before="in_pull_data", after="in_pull_data_ret", error="in_pull_data_err")
    _wrap(Input, "exchange_info", before="in_exchange_info", after="in_exchange_info_ret", error="in_exchange_info_err")
    _wrap(CallbackInput, "source_updated", before="cbin_source_updated")
    _wrap(Adapter, "get_data", before="ada_get_data", after="ada_get_data_ret", error="ada_get_data_err")
    _wrap(TimeDelayAdapter, "get_data", before="ada_get_data", after="ada_get_data_ret", error="ada_get_data_err")
    _wrap(Adapter, "finalize", before="ada_finalize")
    _wrap(Adapter, "source_updated", before="ada_source_updated")
    _wrap(Adapter, "get_info", before="ada_get_info")
    _wrap(TimeDelayAdapter, "get_info", before="ada_get_info")
    _ = fm


def current_update():
    for meth, comp in reversed(REC.update_stack):
        if meth == "update":
            return comp
    return None


class RefusalLog:
    """Where does a request that an output refuses with a time error fall relative to what the
    recorder saw being published on that output? 'inside_published_range' means the data existed and
    is no longer retained; 'beyond_newest_publication' means it was never published. Structural, so
    that classifications do not depend on the wording of exception messages."""

    def __init__(self):
        self.first, self.newest, self.events = {}, {}, []
        self._classified = None  # the exception object classified last (it passes several wrappers while propagating)
        REC.on("out_push_data_ret", self._push)
        REC.on("ada_source_updated", self._notified)
        REC.on("out_get_data_err", self._err)
        REC.on("ada_get_data_err", self._err)
        REC.on("ada_get_data", self._asked)
        self._prev_req, self._cur_req = {}, {}

    def _saw(self, slot, time):
        if time is None:
            return
        self.first.setdefault(slot, time)
        if slot not in self.newest or time > self.newest[slot]:
            self.newest[slot] = time

    def _push(self, outp, _ret, _data=None, time=None):
        self._saw(outp, time)

    def _notified(self, ada, time=None):
        self._saw(ada, time)  # a buffering adapter's history is what it was notified of

    def _asked(self, ada, time=None, _target=None):
        self._prev_req[ada] = self._cur_req.get(ada)
        self._cur_req[ada] = time

    def _err(self, slot, exc, time=None, _target=None):
        if time is None or exc is self._classified:
            return
        if isinstance(slot, TimeIntegrationAdapter) and self._prev_req.get(slot) == time:
            # an integration adapter asked for the time of its previous request again (interval of zero length)
            self._classified = exc
            self.events.append(dict(slot=slot.name, where="repeated_request_at_integration_adapter"))
            return
        if not isinstance(exc, fm.FinamTimeError):
            return
        self._classified = exc
        lo, hi = self.first.get(slot), self.newest.get(slot)
        if lo is None:
            where = "nothing_published"
        elif time > hi:
            where = "beyond_newest_publication"
        elif time < lo:
            where = "before_first_publication"
        else:
            where = "inside_published_range"
        self.events.append(dict(slot=slot.name, where=where))

    def last(self):
        return self.events[-1]["where"] if self.events else None
