"""In-place recorder on finam's public interface methods (installed once per process).

The wrappers replace methods on the real classes, so every caller (the scheduler, adapters,
components, references bound earlier to the class) goes through them. Events are delivered to
the listeners registered by the property monitor for the current case; with no listeners the
wrappers only count evaluations (zero evaluations of a deciding wrapper => inconclusive).
"""
import functools

import finam as fm
from finam.sdk.adapter import Adapter, TimeDelayAdapter
from finam.sdk.component import Component
from finam.sdk.input import CallbackInput, Input
from finam.sdk.output import CallbackOutput, Output


class Rec:
    def __init__(self):
        self.counts = {}
        self.listeners = {}  # event name -> list of callables
        self.update_stack = []  # components whose update()/connect() is running
        self.installed = False

    def reset(self):
        self.listeners = {}
        self.update_stack = []

    def on(self, name, fn):
        self.listeners.setdefault(name, []).append(fn)

    def emit(self, name, *args):
        self.counts[name] = self.counts.get(name, 0) + 1
        for fn in self.listeners.get(name, ()):
            fn(*args)


REC = Rec()


def _wrap(cls, meth, before=None, after=None, error=None, push=False):
    orig = cls.__dict__[meth]
    if getattr(orig, "_vmon", False):
        return

    @functools.wraps(orig)
    def w(self, *a, **k):
        if before:
            REC.emit(before, self, *a)
        if push:
            REC.update_stack.append((meth, self))
        try:
            r = orig(self, *a, **k)
        except BaseException as e:
            if error:
                REC.emit(error, self, e, *a)
            raise
        finally:
            if push:
                REC.update_stack.pop()
        if after:
            REC.emit(after, self, r, *a)
        return r

    w._vmon = True
    setattr(cls, meth, w)


def install():
    if REC.installed:
        return
    REC.installed = True
    _wrap(Component, "update", before="update_entry", after="update_exit", error="update_error", push=True)
    _wrap(Component, "connect", before="connect_entry", after="connect_exit", error="connect_error", push=True)
    _wrap(Component, "initialize", before="initialize_entry")
    _wrap(Component, "validate", before="validate_entry")
    _wrap(Component, "finalize", before="finalize_entry", after="finalize_exit")
    _wrap(Output, "get_data", before="out_get_data", after="out_get_data_ret", error="out_get_data_err")
    _wrap(CallbackOutput, "get_data", before="cb_get_data", after="cb_get_data_ret", error="cb_get_data_err")
    _wrap(Output, "push_data", before="out_push_data", after="out_push_data_ret", error="out_push_data_err")
    _wrap(Output, "finalize", before="out_finalize")
    _wrap(Output, "get_info", before="out_get_info", after="out_get_info_ret", error="out_get_info_err")
    _wrap(Input, "pull_data", before="in_pull_data", after="in_pull_data_ret", error="in_pull_data_err")
    _wrap(Input, "exchange_info", before="in_exchange_info", after="in_exchange_info_ret", error="in_exchange_info_err")
    _wrap(CallbackInput, "source_updated", before="cbin_source_updated")
    _wrap(Adapter, "get_data", before="ada_get_data", after="ada_get_data_ret", error="ada_get_data_err")
    _wrap(TimeDelayAdapter, "get_data", before="ada_get_data", after="ada_get_data_ret", error="ada_get_data_err")
    _wrap(Adapter, "finalize", before="ada_finalize")
    _wrap(Adapter, "source_updated", before="ada_source_updated")
    _wrap(Adapter, "get_info", before="ada_get_info")
    _wrap(TimeDelayAdapter, "get_info", before="ada_get_info")
    _ = fm


def current_update():
    for meth, comp in reversed(REC.update_stack):
        if meth == "update":
            return comp
    return None
