"""Harness components (SDK subclasses only) and composition builder driven by JSON specs.

Time is measured in integer hours after T0 in the specs. All components record their own
life-cycle callbacks; every pull/push inside an update is attributed to that update through
the recorder in record.py.
"""
import logging
from datetime import datetime, timedelta

import numpy as np

import finam as fm
from finam.adapters import (
    AvgOverTime,
    DelayFixed,
    DelayToPull,
    DelayToPush,
    LinearTime,
    NextTime,
    PreviousTime,
    Scale,
    StepTime,
    SumOverTime,
)

T0 = datetime(2000, 1, 1)


def H(x):
    return timedelta(hours=x)


def hrs(t):
    return None if t is None else (t - T0).total_seconds() / 3600.0


class StepCapExceeded(BaseException):
    """raised by harness components when the logical step cap is exceeded (bounded progress)"""


class Ctx:
    """per-composition shared state"""

    def __init__(self, cap=100000):
        self.updates = 0
        self.cap = cap
        self.update_log = []  # (component name, time before, time after)
        self.received = {}  # consumer input key -> list of (request time h, value, units)
        self.errors = []


class Node(fm.TimeComponent):
    """time-stepped component: pulls every input at the announced time, publishes unique ids"""

    def __init__(self, ctx, idx, spec):
        super().__init__()
        self.ctx, self.idx, self.spec = ctx, idx, spec
        self._name = spec["name"]
        self._time = T0 + H(spec["start"])
        self.steps = spec["steps"]
        self.k = 0
        self.calls = []  # life-cycle callback string
        self.nin, self.nout = spec["nin"], spec["nout"]
        self.units = spec.get("units", "")
        self.in_units = spec.get("in_units")

    def _next_time(self):
        return self.time + H(self.steps[self.k % len(self.steps)])

    def value(self, j, k):
        return float(self.idx * 1_000_000 + j * 10_000 + k)

    def _initialize(self):
        self.calls.append("I")
        bad = self.spec.get("bad_input")  # injected metadata conflict: [input index, "units"|"grid"]
        for i in range(self.nin):
            units, grid = self.in_units, fm.NoGrid()
            if bad and bad[0] == i:
                units = "s" if bad[1] == "units" else units
                grid = fm.NoGrid(1) if bad[1] == "grid" else grid
            if self.spec.get("late_in_info"):
                self.inputs.add(name=f"in{i}")  # metadata handed in through try_connect(exchange_infos=...)
            else:
                self.inputs.add(name=f"in{i}", time=self.time, grid=grid, units=units)
        for j in range(self.nout):
            if self.spec.get("info_from_input") is not None and self.nin:
                self.outputs.add(name=f"out{j}")  # metadata derived from an input at connect time
            else:
                self.outputs.add(name=f"out{j}", time=self.time, grid=fm.NoGrid(), units=self.units)
        pulls = [f"in{i}" for i in range(self.nin)] if self.spec.get("initial_pull", True) else []
        self.create_connector(pull_data=pulls)

    def _connect(self, start_time):
        self.calls.append("C")
        push = {} if self.spec.get("no_initial_push") else {f"out{j}": self.value(j, 0) for j in range(self.nout)}
        deps = self.spec.get("push_deps")
        if deps is not None and any(self.connector.in_data.get(f"in{i}") is None for i in deps):
            push = {}  # initial state derived from some pulled inputs: publish only once they arrived
        infos = {}
        src = self.spec.get("info_from_input")
        if src is not None and self.nin:
            got = self.connector.in_infos.get(f"in{src}")
            if got is not None:
                infos = {f"out{j}": got.copy_with(units=self.units) for j in range(self.nout) if not self.connector.infos_pushed[f"out{j}"]}
        ex = {}
        if self.spec.get("late_in_info"):
            ex = {f"in{i}": fm.Info(time=self.time, grid=fm.NoGrid(), units=self.in_units) for i in range(self.nin) if self.connector.in_infos[f"in{i}"] is None}
        self.try_connect(start_time, exchange_infos=ex, push_infos=infos, push_data=push)
        if self.status == fm.ComponentStatus.CONNECTED:
            for name, d in self.connector.in_data.items():
                if d is not None:
                    self.ctx.received.setdefault((self._name, name), []).append(("init", _scalar(d), str(d.units)))

    def _validate(self):
        self.calls.append("V")

    def _update(self):
        self.calls.append("U")
        self.ctx.updates += 1
        if self.ctx.updates > self.ctx.cap:
            raise StepCapExceeded(f"more than {self.ctx.cap} updates")
        t0 = self.time
        t = self._next_time()
        self.k += 1
        self._time = t
        self.ctx.update_log.append((self._name, hrs(t0), hrs(t)))
        for i in range(self.nin):
            d = self.inputs[f"in{i}"].pull_data(t)
            self.ctx.received.setdefault((self._name, f"in{i}"), []).append((hrs(t), _scalar(d), str(d.units)))
        every = self.spec.get("publish_every", 1)
        if self.k % every == 0:  # sparse publishers leave Output.time behind the component time in between
            for j in range(self.nout):
                self.outputs[f"out{j}"].push_data(self.value(j, self.k), t)
        elif self.spec.get("bad_records"):
            # a source with a malformed record in between: the publication is refused, the component skips it and goes on
            for j in range(self.nout):
                if not self.outputs[f"out{j}"].has_targets:
                    continue  # pushes to unconnected outputs are skipped by design
                try:
                    self.outputs[f"out{j}"].push_data(np.zeros(3), t)
                    self.ctx.errors.append("malformed publication accepted")
                except fm.FinamDataError:
                    self.ctx.refused_publications = getattr(self.ctx, "refused_publications", 0) + 1

    def _finalize(self):
        self.calls.append("F")


def _scalar(d):
    return float(np.asarray(fm.data.get_magnitude(d)).ravel()[0])


class PullThrough(fm.Component):
    """component without time step: every output answers a request for t by pulling all own
    inputs for t (sum of inputs + output index). eager=False answers 'no data yet' until its own
    connect completed (the WeightedSum pattern); eager=True pulls whenever asked and relies on
    FinamNoDataError propagating."""

    def __init__(self, ctx, idx, spec):
        super().__init__()
        self.ctx, self.idx, self.spec = ctx, idx, spec
        self._name = spec["name"]
        self.nin, self.nout = spec["nin"], spec["nout"]
        self.eager = spec.get("eager", True)
        self.calls = []
        self.provider_log = []  # (output, requested h, [times pulled per input h])

    def _initialize(self):
        self.calls.append("I")
        for i in range(self.nin):
            self.inputs.add(name=f"in{i}", time=None, grid=fm.NoGrid(), units=None)
        rules = {}
        for j in range(self.nout):
            if self.spec.get("info") == "rule" and self.nin:
                # output metadata derived from the first input (transfer rule), as mergers do
                self.outputs.add(fm.CallbackOutput(callback=lambda caller, t, j=j: self._get(j, t), name=f"out{j}"))
                rules[f"out{j}"] = [fm.tools.FromInput("in0")]
            else:
                # output metadata completed from the consumer (documented pull-based pattern)
                self.outputs.add(
                    fm.CallbackOutput(callback=lambda caller, t, j=j: self._get(j, t), name=f"out{j}", time=None, grid=fm.NoGrid(), units="")
                )
        self.create_connector(out_info_rules=rules)

    def _connect(self, start_time):
        self.calls.append("C")
        self.try_connect(start_time)

    def _validate(self):
        self.calls.append("V")

    def _update(self):
        self.calls.append("U")

    def _finalize(self):
        self.calls.append("F")

    def _get(self, j, t):
        if not self.eager and self.status not in (fm.ComponentStatus.CONNECTED, fm.ComponentStatus.VALIDATED):
            return None
        pulled, vals = [], []
        try:
            for inp in self.inputs.values():
                pulled.append(hrs(t))
                vals.append(_scalar(inp.pull_data(t)))
        except fm.FinamNoDataError:
            return None
        self.provider_log.append((j, hrs(t), pulled))
        return float(sum(vals) + j)


ADAPTERS = {
    "scale": lambda a: Scale(1.0),
    "scale2": lambda a: Scale(2.0),
    "probe": lambda a: fm.adapters.CallbackProbe(lambda d, t: None),
    "lin": lambda a: LinearTime(),
    "next": lambda a: NextTime(),
    "prev": lambda a: PreviousTime(),
    "step": lambda a: StepTime(a[1] if len(a) > 1 else 0.5),
    "avg": lambda a: AvgOverTime(step=a[1] if len(a) > 1 else None),
    "sum": lambda a: SumOverTime(step=a[1] if len(a) > 1 else 0.0, per_time=False),
    "dfix": lambda a: UserDelay(H(a[1])) if (len(a) > 2 and a[2] == "user") else DelayFixed(H(a[1])),
    "dpull": lambda a: DelayToPull(steps=a[1], additional_delay=H(a[2])),
    "dpush": lambda a: DelayToPush(),
    "hold": lambda a: UserHold(),
    "holdnd": lambda a: UserHoldNoDependency(),
}
class UserDelay(fm.Adapter, fm.ITimeDelayAdapter):
    """a fixed delay written by a user from the public interfaces only (no SDK delay base class):
    same shifting rule as the shipped fixed delay"""

    def __init__(self, delay):
        super().__init__()
        self.delay = delay
        self._first = None

    def _get_info(self, info):
        in_info = self.exchange_info(info)
        self._first = in_info.time
        return in_info

    def with_delay(self, time):
        if self._first is None:
            raise fm.FinamNoDataError("metadata not exchanged yet")
        off = time - self.delay
        return min(time, self._first) if off < self._first else off

    def _get_data(self, time, target):
        return self.pull_data(self.with_delay(time), target)


class UserHold(fm.Adapter):
    """a push-based adapter written by a user from the public base class only (not a no-branch adapter):
    fetches its source's data whenever it is notified and hands out the last data fetched"""

    def __init__(self):
        super().__init__()
        self._last = None

    @property
    def needs_push(self):
        return True

    def _source_updated(self, time):
        self._last = self.pull_data(time, self)

    def _get_data(self, time, target):
        if self._last is None:
            raise fm.FinamNoDataError("nothing received yet")
        return self._last


class UserHoldNoDependency(UserHold, fm.interfaces.NoDependencyAdapter):
    """the same, declared as breaking the scheduling dependency (its consumer takes whatever was published last)"""


PUSH_BASED = ("lin", "next", "prev", "step", "avg", "sum")
DELAYS = ("dfix", "dpull", "dpush")


def mk_adapter(a, label=None):
    ada = ADAPTERS[a[0]](a)
    if label:
        ada.with_name(label)
    return ada


def shipped_component(ctx, idx, c):
    """the same role played by a component shipped with finam: CallbackGenerator (no inputs),
    DebugConsumer (no outputs) or CallbackComponent (both); fixed step = first entry of `steps`"""
    start, step = T0 + H(c["start"]), H(c["steps"][0])
    name = c["name"]

    def info():
        return fm.Info(time=None, grid=fm.NoGrid(), units="")

    def val(j, t):
        return float(idx * 1_000_000 + j * 10_000) + hrs(t)

    if c["nin"] == 0:
        comp = fm.components.CallbackGenerator({f"out{j}": ((lambda t, j=j: val(j, t)), info()) for j in range(c["nout"])}, start, step)
    elif c["nout"] == 0:
        comp = fm.components.DebugConsumer({f"in{i}": fm.Info(time=None, grid=fm.NoGrid(), units=None) for i in range(c["nin"])}, start, step)
    else:
        def cb(inputs, t):
            if inputs is not None:
                for k, d in inputs.items():
                    ctx.received.setdefault((name, k), []).append((hrs(t), _scalar(d), str(d.units)))
            return {f"out{j}": val(j, t) for j in range(c["nout"])}

        comp = fm.components.CallbackComponent({f"in{i}": fm.Info(time=None, grid=fm.NoGrid(), units=None) for i in range(c["nin"])},
                                               {f"out{j}": info() for j in range(c["nout"])}, cb, start, step, initial_pull=c.get("initial_pull", True))
    comp.with_name(name)
    comp.calls = []
    comp.spec = c
    return comp


class Built:
    def __init__(self):
        self.ctx = None
        self.comps = {}
        self.composition = None
        self.adapters = []  # (link index, position, spec, adapter)
        self.links = []
        self.deferred = None


def build(spec, cap=None, memory=None, location="spill"):
    """instantiate a composition from a spec (components, links, orders)"""
    b = Built()
    n_upd = 0
    end = spec["end"]
    for c in spec["comps"]:
        if c["type"] == "time":
            n_upd += int((end + 200 - c["start"]) / max(0.25, min(c["steps"]))) + 2
    b.ctx = Ctx(cap if cap is not None else 4 * n_upd + 50)
    objs = []
    for idx, c in enumerate(spec["comps"]):
        if c["type"] == "time" and c.get("impl") == "shipped":
            o = shipped_component(b.ctx, idx, c)
        else:
            cls = Node if c["type"] == "time" else PullThrough
            o = cls(b.ctx, idx, c)
        b.comps[c["name"]] = o
        objs.append(o)
    order = spec.get("order") or list(range(len(objs)))
    kw = {}
    if memory is not None:
        kw = dict(slot_memory_limit=memory, slot_memory_location=location)
    b.composition = fm.Composition([objs[i] for i in order], print_log=False, log_level=logging.CRITICAL + 10, **kw)
    link_order = spec.get("link_order") or list(range(len(spec["links"])))
    trunk_end = {}

    def trunk(tid):
        # a trunk is a chain of branch-capable adapters below an output that several links share; it is
        # created when the first link using it is created (so link order also permutes trunk creation)
        if tid not in trunk_end:
            tr = spec["trunks"][tid] if tid in spec["trunks"] else spec["trunks"][int(tid)]
            x = b.comps[tr["src"][0]].outputs[f"out{tr['src'][1]}"]
            for pos, a in enumerate(tr["chain"]):
                ada = mk_adapter(a, f"T{tid}.a{pos}:{a[0]}")
                b.adapters.append((f"T{tid}", pos, a, ada))
                x = x >> ada
            trunk_end[tid] = x
        return trunk_end[tid]

    def make_link(li):
        ln = spec["links"][li]
        if ln.get("trunk") is not None:
            x = trunk(str(ln["trunk"]))
        else:
            x = b.comps[ln["src"][0]].outputs[f"out{ln['src'][1]}"]
        for pos, a in enumerate(ln["chain"]):
            ada = mk_adapter(a, f"L{li}.a{pos}:{a[0]}")
            b.adapters.append((li, pos, a, ada))
            x = x >> ada
        x >> b.comps[ln["dst"][0]].inputs[f"in{ln['dst'][1]}"]
        b.links.append(ln)

    for li in link_order:
        if spec.get("defer_link") == li:
            b.deferred = lambda li=li: make_link(li)  # the 'forgotten' link, created after the first refused run
            continue
        make_link(li)
    return b


def time_comps(b):
    return [c for c in b.comps.values() if isinstance(c, fm.interfaces.ITimeComponent)]
