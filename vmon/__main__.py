import sys

from .runner import main

sys.exit(main(sys.argv[1:]))
