"""Known-findings handling. known_findings.json is committed and never written at run time.

Entries are keyed by *mechanism*: a named predicate over (case spec, violation witness) below.
status "known": violation witnesses matching the predicate print KNOWN-FINDING and do not fail
                the run; the entry's canonical witness spec is re-executed first on every run.
status "fixed": suppresses nothing; the canonical witness is re-executed as a regression case and
                a violation there is reported like any other.
"""
import json
import os

from . import boot

_PATH = os.path.join(boot.VERIF, "known_findings.json")
PREDICATES = {}


def predicate(name):
    def deco(f):
        PREDICATES[name] = f
        return f

    return deco


def load():
    if not os.path.exists(_PATH):
        return []
    with open(_PATH, encoding="utf-8") as f:
        return json.load(f)["findings"]


def entries(pid, status=None):
    return [e for e in load() if pid in e["properties"] and (status is None or e["status"] == status)]


def classify(pid, spec, violation):
    """mechanism name of a *known* (unfixed) finding that explains this witness, else None"""
    for e in entries(pid, "known"):
        pred = PREDICATES.get(e["mechanism"])
        if pred is not None and pred(pid, spec, violation):
            return e["mechanism"]
    return None


def known_line(pid, mech):
    for e in entries(pid, "known"):
        if e["mechanism"] == mech:
            return f"KNOWN-FINDING: property={pid} {e['id']} {e['what']}"
    return f"KNOWN-FINDING: property={pid} {mech}"


def run_witnesses(prop, run_one):
    """re-execute canonical witnesses; returns (KNOWN-FINDING lines, new violations)"""
    lines, viol, errors = [], [], []
    for e in entries(prop.id):
        w = (e.get("witness") or {}).get(prop.id)
        if w is None:
            continue
        out = run_one(prop, w)
        if out.counters.get("monitor_error"):
            errors.append(f"witness of {e['id']}: " + " ".join(n[-300:] for n in out.notes if n.startswith("MONITOR-ERROR")))
            continue
        if e["status"] == "known":
            hit = [v for v in out.violations if classify(prop.id, w, v) == e["mechanism"]]
            if hit:
                lines.append(known_line(prop.id, e["mechanism"]))
            else:
                print(f"note: recorded finding {e['id']} ({e['mechanism']}) did not reproduce on its canonical witness")
            viol.extend(("witness:" + e["id"], w, v) for v in out.violations if classify(prop.id, w, v) is None)
        else:
            viol.extend(("fixed-witness:" + e["id"], w, v) for v in out.violations if classify(prop.id, w, v) is None)
    return lines, viol, errors


# ---------------------------------------------------------------------------------------
# mechanism predicates (filled in next to the property modules that can observe them)
# ---------------------------------------------------------------------------------------
