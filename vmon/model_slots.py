"""Reference models for slot behaviour, written from the documented semantics only.

Times are integer seconds, scalar values are exact (fractions.Fraction); array values use numpy.
  * nearest-publication model of an output with unlimited history (C08/C09/C20)
  * next / previous / linear / step interpolants (C11)
  * exact integrals of the linear / step interpolant (C12)
  * delay models: fixed, to-pull, to-push, and chains thereof (C13)
"""
from fractions import Fraction as F


class History:
    """unlimited publication history: list of (t, value), t strictly increasing"""

    def __init__(self):
        self.t = []
        self.v = []

    def push(self, t, v):
        assert not self.t or t > self.t[-1]
        self.t.append(t)
        self.v.append(v)

    def __len__(self):
        return len(self.t)

    @property
    def newest(self):
        return self.t[-1]

    @property
    def oldest(self):
        return self.t[0]

    def in_range(self, t):
        return bool(self.t) and self.t[0] <= t <= self.t[-1]

    def index_at_or_after(self, t):
        for i, ti in enumerate(self.t):
            if ti >= t:
                return i
        return None

    def index_at_or_before(self, t):
        r = None
        for i, ti in enumerate(self.t):
            if ti <= t:
                r = i
        return r

    def nearest(self, t):
        """set of acceptable publication indices for a pull at t (both neighbours at the midpoint)"""
        i = self.index_at_or_after(t)
        if i is None:
            return set()
        if self.t[i] == t or i == 0:
            return {i} if self.t[i] == t or i > 0 else set()
        a, b = self.t[i - 1], self.t[i]
        da, db = t - a, b - t
        if da < db:
            return {i - 1}
        if db < da:
            return {i}
        return {i - 1, i}

    # ---- interpolants (value-level; v may be Fraction or numpy array)
    def next_value(self, t):
        return self.v[self.index_at_or_after(t)]

    def prev_value(self, t):
        return self.v[self.index_at_or_before(t)]

    def linear(self, t):
        i = self.index_at_or_after(t)
        if self.t[i] == t:
            return self.v[i]
        a, b = self.t[i - 1], self.t[i]
        w = F(t - a, b - a)
        va, vb = self.v[i - 1], self.v[i]
        if isinstance(va, F) or isinstance(va, int):
            return va + w * (vb - va)
        return va + float(w) * (vb - va)

    def step(self, t, p):
        """step interpolant with relative step position p in [0,1]; returns (value, boundary?)
        boundary=True when t sits (numerically) on the step position: unconstrained there"""
        i = self.index_at_or_after(t)
        if self.t[i] == t:
            return self.v[i], False
        a, b = self.t[i - 1], self.t[i]
        w = F(t - a, b - a)
        pf = F(p).limit_denominator(10**9)
        boundary = abs(float(w) - float(p)) < 1e-9
        return (self.v[i] if w > pf else self.v[i - 1]), boundary

    # ---- exact integrals over [p0, p1] (scalar Fraction values)
    def integral(self, p0, p1, step=None):
        """integral of the linear (step=None) or step interpolant; time unit seconds"""
        tot = F(0)
        for i in range(len(self.t) - 1):
            a, b = self.t[i], self.t[i + 1]
            lo, hi = max(a, p0), min(b, p1)
            if hi <= lo:
                continue
            va, vb = F(self.v[i]), F(self.v[i + 1])
            if step is None:
                fa = va + F(lo - a, b - a) * (vb - va)
                fb = va + F(hi - a, b - a) * (vb - va)
                tot += (fa + fb) / 2 * (hi - lo)
            else:
                s = a + F(step).limit_denominator(10**9) * (b - a)  # position of the step
                # old value on [a, s], new value on (s, b]
                old_len = max(F(0), min(F(hi), s) - F(lo))
                new_len = max(F(0), F(hi) - max(F(lo), s))
                tot += va * old_len + vb * new_len
        return tot

    def weighted_sum(self, p0, p1, step=None):
        """what SumOverTime(per_time=False) documents: per source interval the covered *fraction*
        of the interval times the interpolant's mean there (durations not taken into account)"""
        tot = F(0)
        for i in range(len(self.t) - 1):
            a, b = self.t[i], self.t[i + 1]
            lo, hi = max(a, p0), min(b, p1)
            if hi <= lo:
                continue
            va, vb = F(self.v[i]), F(self.v[i + 1])
            if step is None:
                fa = va + F(lo - a, b - a) * (vb - va)
                fb = va + F(hi - a, b - a) * (vb - va)
                tot += (fa + fb) / 2 * F(hi - lo, b - a)
            else:
                s = a + F(step).limit_denominator(10**9) * (b - a)
                old_len = max(F(0), min(F(hi), s) - F(lo))
                new_len = max(F(0), F(hi) - max(F(lo), s))
                tot += (va * old_len + vb * new_len) / (b - a)
        return tot

    def contributing_range(self, p0, p1):
        """min/max of the values of all publications bracketing [p0, p1]"""
        vals = []
        for i in range(len(self.t) - 1):
            a, b = self.t[i], self.t[i + 1]
            if min(b, p1) > max(a, p0):
                vals += [self.v[i], self.v[i + 1]]
        return (min(vals), max(vals)) if vals else (None, None)


# ------------------------------------------------------------------------------ delays
class DelayFixedModel:
    def __init__(self, delay, start):
        self.delay, self.start = delay, start

    def request(self, t):
        return max(t - self.delay, self.start)

    def served(self, t):
        pass


class DelayToPullModel:
    """n-th previous successful request minus the extra delay, not before the start time"""

    def __init__(self, steps, extra, start):
        self.steps, self.extra, self.start = steps, extra, start
        self.reqs = []

    def request(self, t):  # pylint: disable=unused-argument
        idx = len(self.reqs) - self.steps
        base = self.reqs[idx] if idx >= 0 else self.start
        return max(base - self.extra, self.start)

    def served(self, t):
        self.reqs.append(t)


class DelayToPushModel:
    def __init__(self, start):
        self.start = start
        self.newest = None

    def pushed(self, t):
        self.newest = t

    def request(self, t):
        if self.newest is None:
            return self.start
        return min(t, self.newest)

    def served(self, t):
        pass
