"""Run one generated composition under the recorder and the scheduling reference model.

Returns a Report used by C01 (data exists), C02 (justified updates, assumed == requested),
C03 (termination / life cycle), C04 (cycle outcomes), C05 (outcome tuple), C20 (pull-based).
"""
import traceback

import finam as fm
from finam.interfaces import ITimeComponent

from . import harness, model_sched
from .harness import H, T0, hrs
from .record import REC, RefusalLog, current_update, install


class Report:
    def __init__(self):
        self.outcome = None  # "ok" | exception class name | "StepCapExceeded"
        self.phase = None  # connect | run
        self.message = ""
        self.trace = ""
        self.updates = []  # dict(comp, time, next, justified, reason, chain_len, lacking)
        self.unjustified = []
        self.lacking_at_update = []
        self.lacking_by_push_log = []  # same question answered from the recorder's own log of publications
        self.pull_failures = []  # dict(comp, input, t, exc, msg)
        self.request_mismatch = []  # dict(comp, input, need, requested)
        self.requests_compared = 0
        self.calls = {}
        self.status = {}
        self.final_time = {}
        self.ada_finalize = {}
        self.out_finalize = {}
        self.received = {}
        self.built = None
        self.n_updates = 0
        self.update_order = []
        self.provider_logs = {}
        self.first_attempt = None


def run_spec(spec, *, connect_only=False, memory=None, location="spill", check_model=True, listeners=None, on_built=None):
    install()
    REC.reset()
    rep = Report()
    rep.refusals = RefusalLog()
    b = harness.build(spec, memory=memory, location=location)
    rep.built = b
    comps = list(b.comps.values())
    tcomps = harness.time_comps(b)
    owners = model_sched.output_owners(comps)
    comp_outputs = set(owners)
    pending = {}  # update in progress -> {source output: needed time} for unbuffered links

    def on_update_entry(comp):
        if not isinstance(comp, ITimeComponent):
            return
        snap = dict(comp=comp.name, time=hrs(comp.time), next=hrs(comp.next_time), min_time=min(hrs(c.time) for c in tcomps))
        if check_model:
            ok, reason, clen = model_sched.justified(comp, tcomps, owners)
            lk = model_sched.lacking(comp, owners)
            snap.update(justified=ok, chain_len=clen)
            if lk:
                rep.lacking_at_update.append(dict(comp=comp.name, next=hrs(comp.next_time), lacking=[(o.name, out.name, hrs(need), hrs(have)) for o, out, need, have in lk],
                                                  times={c.name: hrs(c.time) for c in tcomps}))
            elif not ok:
                rep.unjustified.append(dict(comp=comp.name, time=hrs(comp.time), reason=reason, times={c.name: hrs(c.time) for c in tcomps}))
            for (o, outp, need, _via, _first, _last) in model_sched.needs(comp, owners):
                have = newest_pub.get(outp)
                if have is None or have < need:
                    rep.lacking_by_push_log.append(dict(comp=comp.name, next=hrs(comp.next_time), source=f"{o.name}.{outp.name}", needs=hrs(need),
                                                        newest_publication_seen=hrs(have), output_time_attr=hrs(outp.time)))
            # what will be requested from each source output over links without a push-based adapter
            exp = {}
            for (o, out, need, _via, first, last) in model_sched.needs(comp, owners):
                if not _buffered_path(first, owners):
                    exp.setdefault((out, last), []).append(need)
            pending[comp] = exp
        rep.updates.append(snap)

    def _buffered_path(inp, owners_):
        """does a push-based adapter sit anywhere between this input and the time component's output
        (following pull-based components)?"""
        if model_sched.buffered(inp):
            return True
        out, need = model_sched.effective_request(inp, T0)
        if need is None:
            return True
        owner = owners_.get(out)
        if owner is not None and not isinstance(owner, ITimeComponent):
            return any(_buffered_path(i2, owners_) for i2 in owner.inputs.values())
        return False

    def on_out_get_data(out, time, target=None):
        cu = current_update()
        if cu is None or out not in comp_outputs or cu not in pending:
            return
        exp = pending[cu].get((out, target))
        if exp is None:  # link without scheduling dependency (NoDependencyAdapter) or buffered link
            return
        rep.requests_compared += 1
        if time in exp:
            exp.remove(time)
        else:
            rep.request_mismatch.append(dict(comp=cu.name, output=f"{owners[out].name}.{out.name}", model_needs=[hrs(x) for x in exp], requested=hrs(time)))

    newest_pub = {}

    def on_push_ret(outp, _ret, data=None, time=None):
        if outp in comp_outputs and time is not None and outp.has_targets:
            if newest_pub.get(outp) is None or time > newest_pub[outp]:
                newest_pub[outp] = time

    def on_pull_err(inp, exc, time=None, target=None):
        cu = current_update()
        if cu is None or inp not in cu.inputs.values():
            return
        rep.pull_failures.append(dict(comp=cu.name, input=inp.name, t=hrs(time), exc=type(exc).__name__, msg=str(exc)[:200], where=rep.refusals.last()))

    def on_ada_finalize(ada):
        rep.ada_finalize[id(ada)] = rep.ada_finalize.get(id(ada), 0) + 1

    life = {c: [] for c in comps}
    for ev, ch in (("initialize_entry", "I"), ("connect_entry", "C"), ("validate_entry", "V"), ("update_entry", "U"), ("finalize_entry", "F")):
        REC.on(ev, lambda comp, *a, ch=ch: life[comp].append(ch) if comp in life else None)
    n_upd = [0]

    def count_update(comp, *a):
        if isinstance(comp, ITimeComponent):
            n_upd[0] += 1
            if n_upd[0] > b.ctx.cap:
                raise harness.StepCapExceeded(f"more than {b.ctx.cap} updates")
            rep.update_order.append(comp.name)

    n_conn = {}

    def count_connect(comp, *a):
        # bounded progress for the connect phase: every iteration must complete at least one exchange item
        n_conn[comp] = n_conn.get(comp, 0) + 1
        if n_conn[comp] > 60 + 20 * len(comps):
            raise harness.StepCapExceeded(f"{comp.name}: more than {n_conn[comp] - 1} connect calls")

    REC.on("connect_entry", count_connect)
    REC.on("update_entry", count_update)
    REC.on("update_entry", on_update_entry)
    REC.on("out_get_data", on_out_get_data)
    REC.on("in_pull_data_err", on_pull_err)
    REC.on("out_push_data_ret", on_push_ret)
    REC.on("ada_finalize", on_ada_finalize)
    for ev, fn in (listeners or {}).items():
        REC.on(ev, fn)
    if on_built:
        on_built(b)
    start = T0 + H(spec["start"])
    given_start = None if spec.get("auto_start") else start  # None: the composition derives its start time from its components
    if b.deferred is not None:
        # history: a first run with a forgotten link is refused, the link is added, the same composition runs again
        try:
            b.composition.run(start_time=given_start, end_time=T0 + H(spec["end"]))
            rep.first_attempt = "ok"
        except Exception as e:  # pylint: disable=broad-except
            rep.first_attempt = type(e).__name__
        b.deferred()
    try:
        rep.phase = "connect"
        b.composition.connect(given_start)
        if not connect_only:
            rep.phase = "run"
            b.composition.run(end_time=T0 + H(spec["end"]))
        rep.outcome = "ok"
    except harness.StepCapExceeded as e:
        rep.outcome, rep.message = "StepCapExceeded", str(e)
    except RecursionError as e:
        rep.outcome, rep.message = "RecursionError", str(e)[:100]
    except Exception as e:  # pylint: disable=broad-except
        rep.outcome, rep.message = type(e).__name__, str(e)[:400]
        rep.trace = traceback.format_exc()[-1500:]
    finally:
        REC.reset()
    for c in comps:
        # 'I' happens inside Composition.__init__, before listeners exist: taken from the harness' own log if present
        rep.calls[c.name] = ("I" if not life[c] or life[c][0] != "I" else "") + "".join(life[c])
        rep.status[c.name] = str(c.status).rsplit(".", maxsplit=1)[-1]
        if isinstance(c, ITimeComponent):
            rep.final_time[c.name] = hrs(c.time)
        if isinstance(c, harness.PullThrough):
            rep.provider_logs[c.name] = list(c.provider_log)
    rep.received = b.ctx.received
    rep.n_updates = n_upd[0]
    if rep.outcome != "ok":
        # release spill files etc. of aborted runs
        for c in comps:
            for o in c.outputs.values():
                try:
                    o.finalize()
                except Exception:  # pylint: disable=broad-except
                    pass
        for (_li, _pos, _a, ada) in b.adapters:
            try:
                ada.finalize()
            except Exception:  # pylint: disable=broad-except
                pass
        _ = fm
    return rep
