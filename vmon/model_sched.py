"""Scheduling reference model, independent of finam/schedule.py.

Works on the live objects of a built composition through public attributes only
(IInput.source, IAdapter.needs_push, ITimeDelayAdapter.with_delay, IOutput.time/is_static,
ITimeComponent.time/next_time). The per-adapter shift uses the adapter's own public
with_delay (its correctness is C13's subject); the *composition rule* is the model's:

  * walk from the consumer's input upstream;
  * delay adapters shift the request in walk order (chained delays accumulate);
  * once a push-based adapter (needs_push) has been passed, nothing further upstream can
    relax the requirement: that adapter buffers at notification time, so the source must have
    published up to the time that reaches *it*;
  * a NoDependencyAdapter reached before any push-based adapter removes the dependency;
  * through a component without time step the request propagates to each of its inputs.
"""
from finam.interfaces import IAdapter, IInput, ITimeComponent, ITimeDelayAdapter, NoDependencyAdapter


def effective_request(inp, t):
    """(source output, time that must be available there) or (output, None) if no dependency"""
    frozen = False
    cur = t
    x = inp
    while isinstance(x, IInput):
        x = x.source
        if not frozen:
            if isinstance(x, NoDependencyAdapter):
                return x, None
            if isinstance(x, ITimeDelayAdapter):
                cur = x.with_delay(cur)
        if isinstance(x, IAdapter) and x.needs_push:
            frozen = True
    return x, cur


def buffered(inp):
    """True if a push-based adapter sits between this input and its source output"""
    x = inp
    while isinstance(x, IInput):
        x = x.source
        if isinstance(x, IAdapter) and x.needs_push:
            return True
    return False


def requirements(inp, t, owners, acc, via=(), first=None):
    first = first or inp
    out, need = effective_request(inp, t)
    if need is None or getattr(out, "is_static", False):
        return
    owner = owners[out]
    if isinstance(owner, ITimeComponent):
        # (owner, its output, needed time, pull comps passed, consumer's own input, input facing the output)
        acc.append((owner, out, need, via, first, inp))
    else:
        if owner in via:  # cycle of pull-based components: not a scheduling matter
            return
        for i2 in owner.inputs.values():
            requirements(i2, need, owners, acc, via + (owner,), first)


def needs(comp, owners):
    """all (owner time component, output, needed time, via pull comps, first input) of comp's next update"""
    nt = comp.next_time
    acc = []
    if nt is None:
        return acc
    for inp in comp.inputs.values():
        requirements(inp, nt, owners, acc)
    return acc


def lacking(comp, owners):
    return [(o, out, need, out.time) for (o, out, need, _via, _first, _last) in needs(comp, owners) if out.time < need]


def justified(upd, tcomps, owners):
    """is updating `upd` justified: it lacks nothing itself and is reachable from a least-advanced
    component along 'still lacks data from' edges. returns (ok, reason, chain length)"""
    lk = lacking(upd, owners)
    if lk:
        o, out, need, have = lk[0]
        return False, f"{upd.name} itself lacks data: needs {o.name}.{out.name} at {need}, newest is {have}", 0
    tmin = min(c.time for c in tcomps)
    frontier = [(c, 1) for c in tcomps if c.time == tmin]
    seen = set()
    while frontier:
        c, d = frontier.pop(0)
        if c in seen:
            continue
        seen.add(c)
        if c is upd:
            return True, None, d
        for o, _out, _need, _have in lacking(c, owners):
            frontier.append((o, d + 1))
    return False, f"{upd.name} (time {upd.time}) is neither least advanced (min {tmin}) nor upstream of a lacking chain from it", 0


def output_owners(comps):
    m = {}
    for c in comps:
        for o in c.outputs.values():
            m[o] = c
    return m
