"""Process set-up shared by every check: dependency path, scratch cwd, logging, finam import.

Nothing here decides a property; it only makes sure the monitors observe /repo's working tree.
"""
import atexit
import logging
import os
import shutil
import subprocess
import sys
import tempfile
import warnings

VERIF = os.path.dirname(os.path.dirname(os.path.abspath(__file__)))
DEPS = os.path.join(VERIF, ".deps")
_STATE = {"scratch": None, "finam_src": None}


def ensure_deps():
    """icontract/jsonschema live in the git-ignored .deps; rebuild offline if absent."""
    if not os.path.exists(os.path.join(DEPS, ".ok")):
        subprocess.run(
            [os.path.join(VERIF, "setup.sh")],
            check=True,
            stdout=subprocess.DEVNULL,
            stderr=subprocess.DEVNULL,
        )
    if DEPS not in sys.path:
        sys.path.insert(1, DEPS)


def init(scratch=True):
    """Import finam from /repo (or VERIF_FINAM_SRC for break-validation runs), silence logs,
    chdir into a private scratch directory (Composition creates ./temp in the cwd)."""
    ensure_deps()
    warnings.filterwarnings("ignore")
    override = os.environ.get("VERIF_FINAM_SRC")
    if override:
        sys.path.insert(0, override)
    if scratch and _STATE["scratch"] is None:
        base = os.environ.get("TMPDIR") or tempfile.gettempdir()
        d = tempfile.mkdtemp(prefix="vmon-", dir=base)
        _STATE["scratch"] = d
        os.chdir(d)
        atexit.register(_cleanup)
    import finam  # noqa: E402  pylint: disable=import-outside-toplevel

    src = os.path.dirname(os.path.dirname(os.path.abspath(finam.__file__)))
    expect = os.path.abspath(override) if override else "/repo/src"
    if src != expect:
        print(f"INCONCLUSIVE: finam imported from {src}, expected {expect}")
        sys.exit(2)
    _STATE["finam_src"] = src
    logging.lastResort = None
    logging.getLogger().addHandler(logging.NullHandler())
    logging.getLogger().setLevel(logging.CRITICAL + 10)
    logging.getLogger("FINAM").addHandler(logging.NullHandler())
    logging.getLogger("FINAM").propagate = False
    logging.getLogger("FINAM").setLevel(logging.CRITICAL + 10)
    return finam


def _cleanup():
    d = _STATE["scratch"]
    if d and os.path.isdir(d):
        try:
            os.chdir("/")
        finally:
            shutil.rmtree(d, ignore_errors=True)


def scratch_dir():
    return _STATE["scratch"]


def finam_src():
    return _STATE["finam_src"]


def repo_head():
    try:
        out = subprocess.run(
            ["git", "-C", "/repo", "rev-parse", "--short", "HEAD"],
            capture_output=True,
            text=True,
            timeout=10,
            check=False,
        )
        dirty = subprocess.run(
            ["git", "-C", "/repo", "status", "--porcelain", "--", "src"],
            capture_output=True,
            text=True,
            timeout=10,
            check=False,
        )
        return out.stdout.strip() + ("+dirty" if dirty.stdout.strip() else "")
    except Exception:  # pylint: disable=broad-except
        return "unknown"
