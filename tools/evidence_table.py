#!/venv/bin/python
"""print a markdown table of what the committed evidence files say each check observed"""
import json
import os
import sys

VERIF = os.path.dirname(os.path.dirname(os.path.abspath(__file__)))
d = sys.argv[1] if len(sys.argv) > 1 else os.path.join(VERIF, "evidence")
print("| check | tier | cases | distinct non-trivial | wall s | monitor events observed (selection) | known findings |")
print("|---|---|---|---|---|---|---|")
for i in range(1, 21):
    pid = f"C{i:02d}"
    p = os.path.join(d, pid + ".json")
    if not os.path.exists(p):
        continue
    e = json.load(open(p))
    c = e["coverage"]
    mc = c["monitor_counters"]
    top = sorted(((k, v) for k, v in mc.items() if not k.startswith(("viol", "adapter_", "slot_", "class_", "reason_", "end_mode", "src_", "tgt_", "iterations_", "kind_", "dim_", "method_", "spill_in"))), key=lambda kv: -kv[1])[:5]
    print(f"| {pid} | {e['tier']} | {c['evaluations']} | {c['distinct_nontrivial']} | {e['wall_s']} | " + ", ".join(f"{k}={v}" for k, v in top) + f" | {len(e['known_findings_reported'])} |")
