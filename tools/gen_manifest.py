#!/venv/bin/python
"""Regenerate MANIFEST.json from the property modules that exist (run from /verif)."""
import json
import os
import sys

sys.path.insert(0, os.path.dirname(os.path.dirname(os.path.abspath(__file__))))
os.environ.setdefault("PYTHONDONTWRITEBYTECODE", "1")
from vmon import boot  # noqa: E402

boot.init(scratch=False)
from vmon.runner import load_prop  # noqa: E402

props = [json.loads(l) for l in open(os.path.join(boot.VERIF, "properties.jsonl"), encoding="utf-8")]
checks, na = [], []
for p in props:
    pid = p["id"]
    if not os.path.exists(os.path.join(boot.VERIF, "vmon", "props", pid.lower() + ".py")):
        na.append({"property_id": pid, "reason": "check not built yet at this commit (framework under construction); the technique applies, see DESIGN.md"})
        continue
    prop = load_prop(pid)
    checks.append(
        {
            "property_id": pid,
            "quick_cmd": f"./check {pid} quick",
            "thorough_cmd": f"./check {pid} thorough",
            "evidence_file": f"/verif/evidence/{pid}.json",
            "replay_cmd_template": f"./check {pid} --replay {{path}}",
            "engine": "vmon",
            "level_claimed": {
                "category": prop.level,
                "text": getattr(prop, "level_text", None)
                or "Held on the generated executions only: the real finam code runs under monitors whose oracle is an independent executable model; "
                "evidence lists how many distinct non-trivial cases and which monitor events were observed. No claim beyond the generated domain.",
                "design_ref": f"DESIGN.md section 4, {pid}",
            },
            "level_note": getattr(prop, "level_note", None)
            or "Trusted base: CPython, numpy/scipy/pint as installed, the harness components and the reference model in vmon/ (calibrated against the tree over several seeds); " + "; ".join(prop.assumptions),
            "technique": prop.technique,
        }
    )
m = {
    "version": 1,
    "setup_cmd": "./setup.sh",
    "hooks": {
        "guard": "FINAM_VERIF",
        "enable": "no source hooks exist: monitors are installed from /verif/vmon in place on finam's public classes/functions at import time "
        "(finam is an editable install, so every check imports /repo/src as it is on disk); the guard variable is unused by /repo",
        "baseline_off_cmd": "cd /repo && /venv/bin/python -m pytest -ra -q -p no:cacheprovider --timeout=900 --continue-on-collection-errors",
        "source_commits": [],
        "add_only": True,
    },
    "engines": [
        {
            "name": "vmon",
            "path": "/verif/vmon",
            "serves_properties": [c["property_id"] for c in checks],
            "kind_free_text": "runtime monitoring: generated workloads run the real code; in-place wrappers/invariant hooks record events; "
            "reference-model and differential oracles decide; three-valued verdict (0 held / 1 VIOLATION / 2 inconclusive)",
        }
    ],
    "checks": checks,
    "not_applicable": na,
    "notes": "exit 2 (no VIOLATION line) means inconclusive: a monitor was never reached, too few non-trivial cases, or a worker died. "
    "Known findings: /verif/known_findings.json (keyed by mechanism). Seeded breaking changes used to validate the monitors: /verif/seeded/.",
}
if not na:
    m["not_applicable"] = []
with open(os.path.join(boot.VERIF, "MANIFEST.json"), "w", encoding="utf-8") as f:
    json.dump(m, f, indent=1)
    f.write("\n")
import jsonschema  # noqa: E402

jsonschema.validate(m, json.load(open("/root/.vp/MANIFEST.schema.json", encoding="utf-8")))
print("MANIFEST.json:", len(checks), "checks,", len(na), "not yet built; valid")
