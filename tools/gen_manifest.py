#!/venv/bin/python
"""Regenerate MANIFEST.json from the property modules that exist (run from /verif)."""
import json
import os
import sys

sys.path.insert(0, os.path.dirname(os.path.dirname(os.path.abspath(__file__))))
os.environ.setdefault("PYTHONDONTWRITEBYTECODE", "1")
from vmon import boot  # noqa: E402

boot.init(scratch=False)
from vmon.runner import load_prop  # noqa: E402

LEVEL_TEXT = {
    "C01": "Every update() of every generated composition runs under two independent monitors (trace: no pull at the announced time fails; model: an independent scheduling model and the recorder's own publication log find no lagging source at update entry). Held on the executions observed; counters of adapter kinds/orderings/topology classes must all be non-zero, else inconclusive.",
    "C02": "Every update event is judged against a justification-chain search on an independent scheduling model, and every request reaching a source output over an unbuffered link is compared with the model-derived (delay-accumulated) time. Exploration of generated compositions, not a proof.",
    "C03": "Recorded life-cycle events of every component are checked by a regular-expression monitor, adapter finalisation is counted, termination is decided as bounded progress in logical steps (update and connect-iteration caps), never by wall clock.",
    "C04": "The outcome class of each generated cyclic (and acyclic) composition is predicted from its spec alone and compared with the exception class of the real connect()/run(); successful runs must also keep the C01/C02 monitors silent. In-between delay budgets are unconstrained but must end in success or exactly the circular-coupling error.",
    "C05": "Differential monitor: one spec executed under all (<=4 components) or many listing/link-order permutations; outcome tuples must be identical. Held on the permutations executed.",
    "C06": "The real iterative connect() is compared with a least-fixpoint model of the documented protocol (outcome, reported stuck set, connected-only-when-complete, progress exactly when something was exchanged, iteration cap) and offset compositions are checked for both initial publications and initial values.",
    "C07": "An independent rule table over set/unset/conflicting metadata fields predicts accept/reject and the exchanged metadata; the real connect() and the resulting input/output infos are compared field by field, and one datum is sent over the link. Combinations the statement leaves open are counted as unconstrained.",
    "C08": "Recorded push/pull histories on a real link are checked against a nearest-publication model, a hand-written dimensional unit table and the located-value encoding (misplaced elements or mask bits are visible).",
    "C09": "Differential against an unlimited-history model on random interleavings, retained-length bound after every event, icontract class invariant on Output evaluated on every public call.",
    "C10": "Differential (memory limit vs none) on real compositions plus an audit-hook ledger of files created and removed; covers every buffering slot kind, payload kind and prefix-boundary limit generated.",
    "C11": "Exact (Fraction) evaluation of the interpolant definitions on the full publication history versus pulls behind the real adapters, including refused out-of-range requests and memory limits.",
    "C12": "Exact piecewise integrals of the linear/step interpolant versus pulls behind the real Sum/Avg adapters; model-free two-partition conservation check on the real code; unit dimension/reduction checks.",
    "C13": "Compositional delay model versus the time observed at the source's public get_data and the unique id of the delivered publication (slot level), plus the driver-assumption clause under the real scheduler (composition level).",
    "C14": "Closed-form coordinate oracle versus the public grid properties. The thorough tier enumerates the whole bounded configuration product (exhaustive for that space); operation histories over several live grids for the 'whatever was read or set before' clause.",
    "C15": "Located-value encoding over all ordered layout pairs (thorough: every pair, plain and masked): canonical round trip, transform with/without time axis, compatible_with both directions, real links.",
    "C16": "Brute-force geometric oracle with unique located values (nearest), affine-field reproduction and hull membership (linear), poison differential for masked sources, on real links.",
    "C17": "Hand-written dimensional table (not a per-pair pint query) versus finam's helpers and real links; the thorough tier sweeps all ordered pairs of the catalogue in many random query orders from cold and warm caches (exhaustive over the catalogue).",
    "C18": "Numpy reference for compress/expand, fixed-mask prepare monitor, explicit acceptance table on Info.accepts and real exchanges, located masks across layouts.",
    "C19": "Reference predicate over generated link topologies versus the exception class of connect(), recorder counts exchange events before the error, link-list multiset comparison after success.",
    "C20": "One-value model for static slots with fetch counting, provider call-log monitor versus the scheduling model for pull-based components, arithmetic reference for WeightedSum.",
}
props = [json.loads(l) for l in open(os.path.join(boot.VERIF, "properties.jsonl"), encoding="utf-8")]
checks, na = [], []
for p in props:
    pid = p["id"]
    if not os.path.exists(os.path.join(boot.VERIF, "vmon", "props", pid.lower() + ".py")):
        na.append({"property_id": pid, "reason": "check not built yet at this commit (framework under construction); the technique applies, see DESIGN.md"})
        continue
    prop = load_prop(pid)
    checks.append(
        {
            "property_id": pid,
            "quick_cmd": f"./check {pid} quick",
            "thorough_cmd": f"./check {pid} thorough",
            "evidence_file": f"/verif/evidence/{pid}.json",
            "replay_cmd_template": f"./check {pid} --replay {{path}}",
            "engine": "vmon",
            "level_claimed": {
                "category": prop.level,
                "text": LEVEL_TEXT.get(pid)
                or "Held on the generated executions only: the real finam code runs under monitors whose oracle is an independent executable model; "
                "evidence lists how many distinct non-trivial cases and which monitor events were observed. No claim beyond the generated domain.",
                "design_ref": f"DESIGN.md section 4, {pid}",
            },
            "level_note": getattr(prop, "level_note", None)
            or "Trusted base: CPython, numpy/scipy/pint as installed, the harness components and the reference model in vmon/ (calibrated against the tree over several seeds); " + "; ".join(prop.assumptions),
            "technique": prop.technique,
        }
    )
m = {
    "version": 1,
    "setup_cmd": "./setup.sh",
    "hooks": {
        "guard": "FINAM_VERIF",
        "enable": "no source hooks exist: monitors are installed from /verif/vmon in place on finam's public classes/functions at import time "
        "(finam is an editable install, so every check imports /repo/src as it is on disk); the guard variable is unused by /repo",
        "baseline_off_cmd": "cd /repo && /venv/bin/python -m pytest -ra -q -p no:cacheprovider --timeout=900 --continue-on-collection-errors",
        "source_commits": [],
        "add_only": True,
    },
    "engines": [
        {
            "name": "vmon",
            "path": "/verif/vmon",
            "serves_properties": [c["property_id"] for c in checks],
            "kind_free_text": "runtime monitoring: generated workloads run the real code; in-place wrappers/invariant hooks record events; "
            "reference-model and differential oracles decide; three-valued verdict (0 held / 1 VIOLATION / 2 inconclusive)",
        }
    ],
    "checks": checks,
    "not_applicable": na,
    "notes": "exit 2 (no VIOLATION line) means inconclusive: a monitor was never reached, too few non-trivial cases, or a worker died. "
    "Known findings: /verif/known_findings.json (keyed by mechanism). Seeded breaking changes used to validate the monitors: /verif/seeded/.",
}
if not na:
    m["not_applicable"] = []
with open(os.path.join(boot.VERIF, "MANIFEST.json"), "w", encoding="utf-8") as f:
    json.dump(m, f, indent=1)
    f.write("\n")
import jsonschema  # noqa: E402

jsonschema.validate(m, json.load(open("/root/.vp/MANIFEST.schema.json", encoding="utf-8")))
print("MANIFEST.json:", len(checks), "checks,", len(na), "not yet built; valid")
