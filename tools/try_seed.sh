#!/bin/sh
# usage: tools/try_seed.sh <dir with patch.diff> <tier> <ID> [<ID>...]
# applies the seeded change to /repo, runs the named checks, and always restores /repo.
d="$1"; tier="$2"; shift 2
cd /verif || exit 2
if ! git -C /repo diff --quiet -- src; then echo "/repo has local changes, refusing"; exit 2; fi
git -C /repo apply "$d/patch.diff" || { echo "patch does not apply"; exit 2; }
trap 'git -C /repo checkout -- . ' EXIT INT TERM
for id in "$@"; do
  out=$(./check "$id" "$tier" 2>&1); rc=$?
  echo "== $id $tier rc=$rc :: $(echo "$out" | grep -E "^(VIOLATION|INCONCLUSIVE|KNOWN)" | head -2 | tr '\n' ' ')"
  echo "$out" | grep -E "^  case" | head -2
done
