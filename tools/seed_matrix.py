#!/venv/bin/python
"""Run checks against seeded breaking changes, each applied in its own scratch worktree
(VERIF_FINAM_SRC=<worktree>/src), several seeds in parallel. Writes seeded/MATRIX.json.

usage: tools/seed_matrix.py [--jobs N] [--tier quick] [seed-dir-name ...]
"""
import json
import os
import re
import subprocess
import sys
import tempfile
from concurrent.futures import ThreadPoolExecutor

VERIF = os.path.dirname(os.path.dirname(os.path.abspath(__file__)))
SEEDED = os.path.join(VERIF, "seeded")
GROUPS = [
    (r"schedule\.py|connect_helper\.py|sdk/component\.py", "C01 C02 C03 C04 C05 C06 C19 C20"),
    (r"sdk/(output|input|adapter)\.py", "C05 C07 C08 C09 C10 C11 C13 C15 C20"),
    (r"adapters/time(_integration)?\.py", "C01 C02 C09 C10 C11 C12 C13"),
    (r"data/grid_", "C08 C14 C15 C16"),
    (r"data/tools/", "C07 C08 C15 C16 C17 C18"),
    (r"adapters/regrid\.py", "C16"),
    (r"components/mergers\.py", "C20"),
]


ALL = []
OWN = []  # --own: only the check(s) of the seed's own property, merged into the existing matrix entry


def checks_for(meta, patch):
    if ALL:
        return [f"C{i:02d}" for i in range(1, 21)]
    if OWN:
        return sorted(set(re.findall(r"C\d\d", " ".join([meta.get("property") or ""] + meta.get("properties", [])))))
    ids = set(re.findall(r"C\d\d", " ".join([meta.get("property") or ""] + meta.get("properties", []))))
    for pat, lst in GROUPS:
        if re.search(pat, patch):
            ids.update(lst.split())
    return sorted(ids)


ONLY = []


def run_seed(name, tier):
    d = os.path.join(SEEDED, name)
    meta = json.load(open(os.path.join(d, "meta.json")))
    patch = open(os.path.join(d, "patch.diff")).read()
    wt = tempfile.mkdtemp(prefix="vmx-", dir="/tmp")
    os.rmdir(wt)
    res = {}
    try:
        subprocess.run([os.path.join(VERIF, "tools", "mkwt.sh"), wt], check=True, capture_output=True)
        subprocess.run(["git", "-C", wt, "apply", os.path.join(d, "patch.diff")], check=True, capture_output=True)
        scratch = tempfile.mkdtemp(prefix="vmx-ev-", dir="/tmp")
        env = dict(os.environ, VERIF_FINAM_SRC=os.path.join(wt, "src"), VERIF_EVIDENCE_DIR=scratch, VERIF_REPLAY_DIR=os.path.join(scratch, "replay"))
        for cid in [c for c in checks_for(meta, patch) if not ONLY or c in ONLY]:
            p = subprocess.run([os.path.join(VERIF, "check"), cid, tier], env=env, capture_output=True, text=True, timeout=3600)
            kinds = sorted(set(re.findall(r"^  case \S+: (\w+):", p.stdout, flags=re.M)))
            res[cid] = dict(rc=p.returncode, kinds=kinds[:4])
        subprocess.run(["rm", "-rf", scratch])
    finally:
        subprocess.run(["git", "-C", "/repo", "worktree", "remove", "--force", wt], capture_output=True)
        subprocess.run(["rm", "-rf", wt])
    caught = sorted(c for c, r in res.items() if r["rc"] == 1)
    print(f"{name}: caught by {caught or 'NONE'}  (ran {sorted(res)})", flush=True)
    return name, dict(property=meta.get("property"), caught_by=caught, results=res)


def run_seed_safe(name, tier):
    try:
        return run_seed(name, tier)
    except Exception as e:  # pylint: disable=broad-except
        print(f"{name}: ERROR {type(e).__name__}: {str(e)[:200]}", flush=True)
        return name, None


def main():
    args = sys.argv[1:]
    jobs, tier = 4, "quick"
    while args and args[0].startswith("--"):
        k = args.pop(0)
        if k == "--jobs":
            jobs = int(args.pop(0))
        elif k == "--tier":
            tier = args.pop(0)
        elif k == "--all":
            ALL.append(True)
        elif k == "--own":
            OWN.append(True)
        elif k == "--only":
            ONLY.extend(args.pop(0).split(","))
    names = args or sorted(n for n in os.listdir(SEEDED) if os.path.isfile(os.path.join(SEEDED, n, "patch.diff")))
    path = os.environ.get("VERIF_MATRIX") or os.path.join(SEEDED, "MATRIX.json")  # (a second concurrent run writes elsewhere, merged afterwards)
    matrix = json.load(open(path)) if os.path.exists(path) else {}
    with ThreadPoolExecutor(jobs) as ex:
        for name, r in ex.map(lambda n: run_seed_safe(n, tier), names):
            if r is None:
                continue
            if (ONLY or OWN) and name in matrix:
                matrix[name]["results"].update(r["results"])
                matrix[name]["caught_by"] = sorted(c for c, x in matrix[name]["results"].items() if x["rc"] == 1)
            else:
                matrix[name] = r
            json.dump(matrix, open(path + ".tmp", "w"), indent=1, sort_keys=True)
            os.replace(path + ".tmp", path)
    json.dump(matrix, open(path, "w"), indent=1, sort_keys=True)
    names = [n for n in names if n in matrix]
    missed = [n for n in names if not matrix[n]["caught_by"]]
    print(f"{len(names)} seeds, {len(missed)} not caught: {missed}")
    alarms = {n: matrix[n]["caught_by"] for n in names if matrix[n]["caught_by"] and n.startswith(("ref-", "ok-", "ok2-"))}
    if any(n.startswith(("ref-", "ok-", "ok2-")) for n in names):
        print(f"refactorings raising an alarm (must be empty): {alarms}")


main()
