#!/venv/bin/python
"""For every seeded/revert-Fx: apply the revert in a scratch worktree, run the checks of the
properties the fix belongs to, and print the first violating case spec per property (to be pasted
into known_findings.json as the canonical regression witness of the fixed entry)."""
import glob
import json
import os
import subprocess
import sys
import tempfile

VERIF = os.path.dirname(os.path.dirname(os.path.abspath(__file__)))
out = {}
for d in sorted(glob.glob(os.path.join(VERIF, "seeded", "revert-F*"))):
    fid = os.path.basename(d).split("-")[1]
    meta = json.load(open(os.path.join(d, "meta.json")))
    wt = tempfile.mkdtemp(prefix="vcw-", dir="/tmp")
    os.rmdir(wt)
    subprocess.run([os.path.join(VERIF, "tools", "mkwt.sh"), wt], check=True, capture_output=True)
    subprocess.run(["git", "-C", wt, "apply", os.path.join(d, "patch.diff")], check=True)
    scratch = tempfile.mkdtemp(prefix="vcw-ev-", dir="/tmp")
    env = dict(os.environ, VERIF_FINAM_SRC=os.path.join(wt, "src"), VERIF_EVIDENCE_DIR=scratch, VERIF_REPLAY_DIR=os.path.join(scratch, "replay"))
    out[fid] = {}
    for pid in meta["properties"]:
        subprocess.run([os.path.join(VERIF, "check"), pid, "quick"], env=env, capture_output=True, text=True)
        files = sorted(glob.glob(os.path.join(scratch, "replay", pid, "*-0.json")))
        if files:
            r = json.load(open(files[0]))
            out[fid][pid] = dict(spec=r["spec"], kind=r["violation"]["kind"])
            print(fid, pid, r["violation"]["kind"], file=sys.stderr)
        else:
            print(fid, pid, "NOT CAUGHT", file=sys.stderr)
    subprocess.run(["git", "-C", "/repo", "worktree", "remove", "--force", wt], capture_output=True)
    subprocess.run(["rm", "-rf", wt, scratch])
json.dump(out, open("/tmp/witnesses.json", "w"), indent=1, default=str)
