#!/bin/sh
# usage: tools/validate_seed.sh <src dir with patch.diff demo.py meta.json> <seed-id>
# Confirms a seeded change in a fresh scratch worktree: patch applies, tests/ result unchanged
# (193 passed, same 14 env failures), demo fails with the change and passes without it.
# On success copies it to /verif/seeded/<seed-id>/ and records what was run in meta.json.
src="$1"; id="$2"
wt=$(mktemp -d /tmp/vseed-XXXXXX); rmdir "$wt"
/verif/tools/mkwt.sh "$wt" >/dev/null || exit 2
cleanup() { git -C /repo worktree remove --force "$wt" 2>/dev/null; rm -rf "$wt" "$wt-run"; }
trap cleanup EXIT INT TERM
mkdir -p "$wt-run"
run_demo() { (cd "$wt-run" && rm -rf ./* && PYTHONPATH="$wt/src" timeout 600 /venv/bin/python "$src/demo.py" >"$wt-run/../$(basename $wt)-demo.log" 2>&1; echo $?); }
base=$(run_demo)
[ "$base" = "0" ] || { echo "$id: REJECT demo fails on clean tree (rc=$base)"; exit 1; }
git -C "$wt" apply "$src/patch.diff" || { echo "$id: REJECT patch does not apply"; exit 1; }
mut=$(run_demo)
[ "$mut" != "0" ] || { echo "$id: REJECT demo passes with the change"; exit 1; }
res=$(cd "$wt" && PYTHONPATH="$wt/src" /venv/bin/python -m pytest -q -p no:cacheprovider tests 2>&1 | tail -1)
fails=$(cd "$wt" && PYTHONPATH="$wt/src" /venv/bin/python -m pytest -q -p no:cacheprovider tests 2>&1 | grep '^FAILED' | sed 's/ - .*//' | sort | md5sum | cut -c1-8)
basefails=$(cd /repo && /venv/bin/python -m pytest -q -p no:cacheprovider tests 2>&1 | grep '^FAILED' | sed 's/ - .*//' | sort | md5sum | cut -c1-8)
case "$res" in *"14 failed, 193 passed"*) ;; *) echo "$id: REJECT tests changed: $res"; exit 1;; esac
[ "$fails" = "$basefails" ] || { echo "$id: REJECT failing set differs"; exit 1; }
mkdir -p "/verif/seeded/$id"
cp "$src/patch.diff" "$src/demo.py" "/verif/seeded/$id/"
/venv/bin/python - "$src/meta.json" "/verif/seeded/$id/meta.json" "$res" "$mut" <<'PY'
import json,sys
m=json.load(open(sys.argv[1]))
m["confirmed"]={"by":"tools/validate_seed.sh in a fresh scratch worktree of /repo HEAD","patch_applies":True,
 "tests_dir_result_with_change":sys.argv[3].strip(),"same_failing_set_as_baseline":True,
 "demo_exit_clean_tree":0,"demo_exit_with_change":int(sys.argv[4])}
json.dump(m,open(sys.argv[2],"w"),indent=1)
PY
echo "$id: OK ($res; demo rc clean=0 mutated=$mut)"
