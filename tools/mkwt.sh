#!/bin/sh
# usage: tools/mkwt.sh <dir>  -- scratch git worktree of /repo HEAD (outside /repo and /verif), importable via PYTHONPATH=<dir>/src
set -e
git -C /repo worktree add --detach "$1" HEAD -q
cp /repo/src/finam/_version.py "$1/src/finam/_version.py"
echo "worktree $1 ready; use: cd $1 && PYTHONPATH=$1/src /venv/bin/python ..."
