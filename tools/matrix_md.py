#!/venv/bin/python
"""seeded/MATRIX.json -> seeded/README.md (which checks catch which seeded change)"""
import json
import os

VERIF = os.path.dirname(os.path.dirname(os.path.abspath(__file__)))
m = json.load(open(os.path.join(VERIF, "seeded", "MATRIX.json")))
rows = []
for name, r in sorted(m.items()):
    if name.startswith(("ref-", "ok-", "ok2-")):
        continue
    meta = json.load(open(os.path.join(VERIF, "seeded", name, "meta.json")))
    own = meta.get("properties") or [meta.get("property")]
    kinds = "; ".join(f"{c}: {', '.join(r['results'][c]['kinds'][:2])}" for c in r["caught_by"][:3])
    ran = sorted(r["results"])
    rows.append(f"| `{name}` | {', '.join(own)} | {meta.get('summary', '')[:160]} | {meta.get('needs', '')[:140]} | **{', '.join(r['caught_by']) or 'none'}** | {kinds} | {', '.join(c for c in ran if c not in r['caught_by'])} |")
txt = """# Seeded breaking changes and the checks that catch them

Each directory holds `patch.diff` (applies to /repo HEAD), `demo.py` (exits 0 on the unchanged tree,
non-zero with the change), `meta.json` (property, what the change needs in order to manifest, and what
`tools/validate_seed.sh` confirmed in a fresh scratch worktree: patch applies, `tests/` still gives
193 passed with the same 14 environment-caused failures, demo fails with / passes without the change).
`C??-mut?-*` (round 1) and `r2-*` ... `r7-*` were written by independent sub-agents that saw only the property text
(from round 2 on also one-line summaries of the changes already tried); `revert-F*` revert one `fix:` commit each.
Matrix produced by `tools/seed_matrix.py` (quick tier, seed 0, each change applied in its own scratch worktree,
`VERIF_FINAM_SRC`); "not raised by" lists the related checks that were run and stayed silent (exit 0) or
inconclusive (exit 2). The column of a change's own property was re-run with the final code for every change; the
columns of neighbouring checks partly stem from the round in which the change was imported.
`ref-*` (behaviour-preserving refactorings) and `ok-*` / `ok2-*` (behaviour changes that every property allows;
confirmed by `tools/validate_ok.sh`) are false-alarm probes: all 20 checks were run against each of the 100 with
the final code and must stay silent - see MATRIX.json (`caught_by` empty for all of them; `first_run_*` notes on
`ok2-C09-2` record the one probe that exposed two monitor weaknesses, DESIGN 8.2).

| seeded change | property | what was changed | needs | caught by | first violation kinds | ran, not raised by |
|---|---|---|---|---|---|---|
""" + "\n".join(rows) + "\n"
open(os.path.join(VERIF, "seeded", "README.md"), "w").write(txt)
refs = {n: r for n, r in m.items() if n.startswith(("ref-", "ok-", "ok2-"))}
m = {n: r for n, r in m.items() if not n.startswith(("ref-", "ok-", "ok2-"))}
print(len(refs), "refactorings and allowed changes;", sum(1 for r in refs.values() if r["caught_by"]), "raised an alarm")
own_missed = [n for n, r in m.items() if not (set((json.load(open(os.path.join(VERIF, 'seeded', n, 'meta.json'))).get('properties') or [r['property']])) & set(r['caught_by']))]
print(len(m), "seeds;", sum(1 for r in m.values() if r["caught_by"]), "caught; own property did not catch:", own_missed)
