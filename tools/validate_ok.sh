#!/bin/sh
# usage: tools/validate_ok.sh <src dir with patch.diff demo.py meta.json> <id>
# Confirms an "allowed change" (behaviour differs observably, every property still holds) in a
# fresh scratch worktree: patch applies, tests/ result unchanged, demo exits 0 on both trees and
# its BEHAVIOUR: line differs. On success copies it to /verif/seeded/<id>/.
src="$1"; id="$2"
wt=$(mktemp -d /tmp/vseed-XXXXXX); rmdir "$wt"
/verif/tools/mkwt.sh "$wt" >/dev/null || exit 2
cleanup() { git -C /repo worktree remove --force "$wt" 2>/dev/null; rm -rf "$wt" "$wt-run" "$wt-a.log" "$wt-b.log"; }
trap cleanup EXIT INT TERM
mkdir -p "$wt-run"
run_demo() { (cd "$wt-run" && rm -rf ./* && PYTHONPATH="$wt/src" timeout 600 /venv/bin/python "$src/demo.py" >"$1" 2>&1; echo $?); }
base=$(run_demo "$wt-a.log")
[ "$base" = "0" ] || { echo "$id: REJECT demo fails on clean tree (rc=$base)"; exit 1; }
git -C "$wt" apply "$src/patch.diff" || { echo "$id: REJECT patch does not apply"; exit 1; }
mut=$(run_demo "$wt-b.log")
[ "$mut" = "0" ] || { echo "$id: REJECT demo fails with the change (rc=$mut)"; exit 1; }
a=$(grep '^BEHAVIOUR:' "$wt-a.log"); b=$(grep '^BEHAVIOUR:' "$wt-b.log")
[ -n "$a" ] && [ "$a" != "$b" ] || { echo "$id: REJECT no observable difference reported"; exit 1; }
out=$(cd "$wt" && PYTHONPATH="$wt/src" /venv/bin/python -m pytest -q -p no:cacheprovider tests 2>&1)
res=$(echo "$out" | tail -1)
fails=$(echo "$out" | grep '^FAILED' | sed 's/ - .*//' | sort | md5sum | cut -c1-8)
basefails=$(cd /repo && /venv/bin/python -m pytest -q -p no:cacheprovider tests 2>&1 | grep '^FAILED' | sed 's/ - .*//' | sort | md5sum | cut -c1-8)
case "$res" in *"14 failed, 193 passed"*) ;; *) echo "$id: REJECT tests changed: $res"; exit 1;; esac
[ "$fails" = "$basefails" ] || { echo "$id: REJECT failing set differs"; exit 1; }
mkdir -p "/verif/seeded/$id"
cp "$src/patch.diff" "$src/demo.py" "/verif/seeded/$id/"
/venv/bin/python - "$src/meta.json" "/verif/seeded/$id/meta.json" "$res" "$a" "$b" <<'PY'
import json,sys
m=json.load(open(sys.argv[1]))
m["kind"]="allowed-change"
m["expect"]="no check may raise an alarm: observable behaviour differs, every property still holds"
m["confirmed"]={"by":"tools/validate_ok.sh in a fresh scratch worktree of /repo HEAD","patch_applies":True,
 "tests_dir_result_with_change":sys.argv[3].strip(),"same_failing_set_as_baseline":True,
 "demo_exit_both_trees":0,"behaviour_clean":sys.argv[4][:300],"behaviour_changed":sys.argv[5][:300]}
json.dump(m,open(sys.argv[2],"w"),indent=1)
PY
echo "$id: OK ($res)"
