#!/bin/sh
# Offline setup: third-party helper packages for the monitors go into the git-ignored .deps
# (icontract: in-place runtime contracts; jsonschema: evidence self-validation).
set -e
cd "$(dirname "$0")"
if [ ! -f .deps/.ok ]; then
  rm -rf .deps
  PIP_NO_INDEX=1 /venv/bin/pip install --quiet --no-index --find-links /opt/veriftools/wheels \
     --target .deps icontract jsonschema >/dev/null 2>&1 || \
  PIP_NO_INDEX=1 /venv/bin/pip install --no-index --find-links /opt/veriftools/wheels --target .deps icontract jsonschema
  touch .deps/.ok
fi
/venv/bin/python -c "import sys; sys.path.insert(0,'.deps'); import icontract, jsonschema, finam; print('setup ok', finam.__file__)"
