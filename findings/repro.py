"""Minimal stand-alone reproducers for the genuine defects found in finam (F1..F17).

Usage:  /venv/bin/python findings/repro.py [F1 F2 ...]      (run from /verif)
Prints, per defect, DEFECT (still present) or OK (behaves as the property demands).
Each reproducer is the specific failing input of one entry of known_findings.json; the
monitors in vmon/ find the same mechanisms through generated workloads.
"""
import logging
import os
import sys
import tempfile
import traceback
from datetime import datetime, timedelta

import numpy as np

os.chdir(tempfile.mkdtemp(prefix="vmon-repro-"))
import finam as fm  # noqa: E402
from finam.adapters import (  # noqa: E402
    AvgOverTime,
    DelayFixed,
    LinearTime,
    Scale,
    StepTime,
    SumOverTime,
)

logging.getLogger("FINAM").addHandler(logging.NullHandler())
S = datetime(2000, 1, 1)


def D(x):
    return timedelta(days=x)


def H(x):
    return timedelta(hours=x)


class Node(fm.TimeComponent):
    """time component with nin inputs / nout outputs, publishing its step counter"""

    def __init__(self, name, step, nin=0, nout=1, start=S, pull=True, value=None):
        super().__init__()
        self._name = name
        self._time = start
        self.step = step
        self.nin, self.nout, self.pull = nin, nout, pull
        self.k = 0
        self.got = []
        self.value = value or (lambda k, t: float(k))

    def _next_time(self):
        return self.time + self.step

    def _initialize(self):
        for i in range(self.nin):
            self.inputs.add(name=f"in{i}", time=self.time, grid=fm.NoGrid(), units=None)
        for j in range(self.nout):
            self.outputs.add(name=f"out{j}", time=self.time, grid=fm.NoGrid(), units="")
        self.create_connector(
            pull_data=[f"in{i}" for i in range(self.nin)] if self.pull else []
        )

    def _connect(self, st):
        self.try_connect(
            st, push_data={f"out{j}": self.value(0, self.time) for j in range(self.nout)}
        )

    def _validate(self):
        pass

    def _update(self):
        t = self._next_time()
        self.k += 1
        self._time = t
        for i in range(self.nin):
            d = self.inputs[f"in{i}"].pull_data(t)
            self.got.append((i, t, fm.data.get_magnitude(d).copy()))
        for j in range(self.nout):
            self.outputs[f"out{j}"].push_data(self.value(self.k, t), t)

    def _finalize(self):
        pass


class Pull(fm.Component):
    """pull-based component: out_j = sum of all inputs at the requested time"""

    def __init__(self, name, nin=1, nout=1, eager=True):
        super().__init__()
        self._name = name
        self.nin, self.nout, self.eager = nin, nout, eager
        self.calls = []

    def _initialize(self):
        for i in range(self.nin):
            self.inputs.add(name=f"in{i}", time=None, grid=fm.NoGrid(), units=None)
        for j in range(self.nout):
            self.outputs.add(
                fm.CallbackOutput(
                    callback=self._get, name=f"out{j}", time=None, grid=fm.NoGrid(), units=""
                )
            )
        self.create_connector()

    def _connect(self, st):
        self.try_connect(st)

    def _validate(self):
        pass

    def _update(self):
        pass

    def _finalize(self):
        pass

    def _get(self, _caller, t):
        if not self.eager and self.status not in (
            fm.ComponentStatus.CONNECTED,
            fm.ComponentStatus.VALIDATED,
        ):
            return None
        try:
            vals = [
                float(fm.data.get_magnitude(inp.pull_data(t)).ravel()[0])
                for inp in self.inputs.values()
            ]
        except fm.FinamNoDataError:
            return None
        self.calls.append(t)
        return sum(vals)


def compo(comps, **kw):
    return fm.Composition(comps, print_log=False, log_level=logging.CRITICAL, **kw)


# ----------------------------------------------------------------------------------
def F1():
    """chained delays are not accumulated by the scheduler (C02/C13/C04)"""
    a, b = Node("A", D(5), 1, 1, pull=False), Node("B", D(8), 1, 1, pull=False)
    c = compo([a, b])
    a.outputs["out0"] >> DelayFixed(D(5)) >> DelayFixed(D(8)) >> b.inputs["in0"]
    b.outputs["out0"] >> a.inputs["in0"]
    c.run(start_time=S, end_time=S + D(40))


def F2():
    """delay upstream of a push-based adapter relaxes the scheduler (C01)"""
    a, b = Node("A", D(2), 0, 1), Node("B", D(5), 1, 0)
    c = compo([a, b])
    a.outputs["out0"] >> DelayFixed(D(3)) >> LinearTime() >> b.inputs["in0"]
    c.run(start_time=S, end_time=S + D(30))


def F3():
    """two outputs of one pull-based component into one consumer: false cycle (C04/C20)"""
    a, p, b = Node("A", D(1), 0, 1), Pull("P", 1, 2), Node("B", D(3), 2, 0)
    c = compo([a, p, b])
    a.outputs["out0"] >> p.inputs["in0"]
    p.outputs["out0"] >> b.inputs["in0"]
    p.outputs["out1"] >> b.inputs["in1"]
    c.run(start_time=S, end_time=S + D(10))


def F3b():
    """a genuine cycle through a pull-based component must be reported as circular coupling"""
    a, p = Node("A", D(1), 1, 1, pull=False), Pull("P", 1, 1)
    c = compo([a, p])
    a.outputs["out0"] >> p.inputs["in0"]
    p.outputs["out0"] >> a.inputs["in0"]
    try:
        c.run(start_time=S, end_time=S + D(10))
    except fm.FinamCircularCouplingError:
        return
    raise AssertionError("expected FinamCircularCouplingError")


def _masked_producer(mask):
    grid = fm.UniformGrid((3, 4))

    class M(Node):
        def _initialize(self):
            self.outputs.add(name="out0", time=self.time, grid=grid, units="m", mask=mask)
            self.create_connector()

    def val(k, t):
        return np.ma.array(np.full((2, 3), float(k)), mask=mask)

    return M("A", D(1), 0, 1, value=val), grid


def F4():
    """spilling a masked payload (C10)"""
    mask = np.array([[True, False, False], [False, False, True]])
    a, grid = _masked_producer(mask)
    b = fm.components.DebugConsumer(
        {"In": fm.Info(time=None, grid=grid, units="m", mask=mask)}, start=S, step=D(2)
    )
    c = compo([a, b], slot_memory_limit=0, slot_memory_location="spill")
    a.outputs["out0"] >> b.inputs["In"]
    c.run(start_time=S, end_time=S + D(6))


def _run_adapter_limit(adapter_factory, limit, units="m"):
    res = {}
    for lim in (None, limit):
        a = Node("A", D(1), 0, 1)
        a._initialize = lambda a=a: (
            a.outputs.add(name="out0", time=a.time, grid=fm.NoGrid(), units=units),
            a.create_connector(),
        )
        b = Node("B", D(1), 1, 0)
        loc = tempfile.mkdtemp(prefix="spill", dir=".")
        c = compo([a, b], slot_memory_limit=lim, slot_memory_location=loc)
        a.outputs["out0"] >> adapter_factory() >> b.inputs["in0"]
        c.connect(S)
        first = b.connector.in_data["in0"]
        c.run(end_time=S + D(4))
        res[lim] = (first, [g[2] for g in b.got], os.listdir(loc))
    return res


def F5():
    """LinearTime/StepTime return the packed entry (file name) for a single spilled entry (C10)"""
    for fac in (LinearTime, lambda: StepTime(0.5)):
        r = _run_adapter_limit(fac, 0)
        first = fm.data.get_magnitude(r[0][0])
        assert first.dtype.kind == "f" and np.allclose(first, fm.data.get_magnitude(r[None][0])), first


def F6():
    """time caching adapters leave spill files behind after finalize (C10)"""
    r = _run_adapter_limit(LinearTime, 0)
    assert r[0][2] == [], r[0][2]


def F7():
    """adapter read-back relabels with output units (SumOverTime per_time + spill) (C10)"""
    r = _run_adapter_limit(lambda: SumOverTime(step=0.0, per_time=True), 0, units="mm/d")
    a = [np.asarray(x).ravel().tolist() for x in r[None][1]]
    b = [np.asarray(x).ravel().tolist() for x in r[0][1]]
    assert np.allclose(a, b), (a, b)


def F8():
    """RectilinearGrid memoises data_shape/data_size across data_location changes (C14)"""
    g = fm.UniformGrid((3, 4))
    assert g.data_shape == (2, 3)
    g.data_location = "POINTS"
    assert g.data_shape == (3, 4) and g.data_size == 12, (g.data_shape, g.data_size)


def F9():
    """layout transform on data with the time axis (C15)"""
    g1 = fm.UniformGrid((3, 4), data_location="POINTS")
    g2 = fm.UniformGrid((3, 4), data_location="POINTS", axes_increase=(True, False))
    pts = g1.data_points
    vals = (pts[:, 0] + 1e3 * pts[:, 1]).reshape(g1.data_shape, order=g1.order)
    a = Node("A", D(1), 0, 1, value=lambda k, t: vals.copy())
    a._initialize = lambda: (
        a.outputs.add(name="out0", time=a.time, grid=g1, units=""),
        a.create_connector(),
    )
    b = fm.components.DebugConsumer(
        {"In": fm.Info(time=None, grid=g2, units="")}, start=S, step=D(1)
    )
    c = compo([a, b])
    a.outputs["out0"] >> b.inputs["In"]
    c.run(start_time=S, end_time=S + D(2))
    got = fm.data.get_magnitude(b.data["In"])[0]
    p2 = g2.data_points
    exp = (p2[:, 0] + 1e3 * p2[:, 1]).reshape(g2.data_shape, order=g2.order)
    assert np.allclose(got, exp), (got, exp)


def F10():
    """WeightedSum serves the same buffer twice for one time -> two consumers fail (C20)"""
    a = Node("A", D(1), 0, 2)
    ws = fm.components.WeightedSum(inputs=["X"])
    b1, b2 = Node("B1", D(1), 1, 0), Node("B2", D(1), 1, 0)
    c = compo([a, ws, b1, b2])
    a.outputs["out0"] >> ws.inputs["X"]
    a.outputs["out1"] >> ws.inputs["X_weight"]
    ws.outputs["WeightedSum"] >> b1.inputs["in0"]
    ws.outputs["WeightedSum"] >> b2.inputs["in0"]
    c.run(start_time=S, end_time=S + D(3))


def F11():
    """pull-based component with two consumers of diverging steps (C20; known finding)"""
    a, p = Node("A", D(1), 0, 1), Pull("P", 1, 1)
    b1, b2 = Node("B1", D(1), 1, 0), Node("B2", D(7), 1, 0)
    c = compo([a, p, b1, b2])
    a.outputs["out0"] >> p.inputs["in0"]
    p.outputs["out0"] >> b1.inputs["in0"]
    p.outputs["out0"] >> b2.inputs["in0"]
    c.run(start_time=S, end_time=S + D(20))


def F13():
    """fixed-mask consumer with unset grid accepts a producer with a different fixed mask (C07/C18)"""
    grid = fm.UniformGrid((3, 4))
    m1 = np.array([[True, False, False], [False, False, False]])
    m2 = np.array([[False, False, False], [False, False, True]])
    a, _ = _masked_producer(m1)
    b = fm.components.DebugConsumer(
        {"In": fm.Info(time=None, grid=None, units="m", mask=m2)}, start=S, step=D(1)
    )
    c = compo([a, b])
    a.outputs["out0"] >> b.inputs["In"]
    try:
        c.connect(S)
    except fm.FinamMetaDataError:
        return
    raise AssertionError("different fixed masks accepted; input mask now %s" % b.inputs["In"].info.mask)


def F14():
    """delay adapter clamps a request that precedes its start time forward (C06/C13)"""
    a = Node("A", D(1), 0, 1, start=S + D(3))
    b = Node("B", D(1), 1, 0, start=S)
    c = compo([a, b])
    a.outputs["out0"] >> DelayFixed(D(1)) >> LinearTime() >> b.inputs["in0"]
    c.connect(S)


def F15():
    """prepare applies a fixed mask to flat data in C order on an F-order grid (C08/C18)"""
    grid = fm.UniformGrid((3, 4))  # order F, data shape (2, 3)
    mask = np.array([[False, True, False], [False, False, False]])
    info = fm.Info(time=None, grid=grid, units="", mask=mask)
    shaped = np.arange(6.0).reshape((2, 3))
    flat = shaped.ravel(order="F")
    out = fm.data.prepare(flat, info)
    got_mask = np.ma.getmaskarray(fm.data.get_magnitude(out))[0]
    assert np.array_equal(got_mask, mask), got_mask


def F16():
    """RegridLinear with a 1-D masked/unstructured source (C16; known finding)"""
    src = fm.UnstructuredPoints(np.array([[0.0], [1.0], [2.0], [3.0]]))
    dst = fm.UnstructuredPoints(np.array([[0.5], [1.5]]))
    a = Node("A", D(1), 0, 1, value=lambda k, t: np.array([0.0, 1.0, 2.0, 3.0]))
    a._initialize = lambda: (
        a.outputs.add(name="out0", time=a.time, grid=src, units=""),
        a.create_connector(),
    )
    b = fm.components.DebugConsumer({"In": fm.Info(time=None, grid=dst, units="")}, start=S, step=D(1))
    c = compo([a, b])
    a.outputs["out0"] >> fm.adapters.RegridLinear() >> b.inputs["In"]
    c.run(start_time=S, end_time=S + D(1))
    assert np.allclose(fm.data.get_magnitude(b.data["In"])[0], [0.5, 1.5])


def F17():
    """delay adapter pulled before its info exchange -> TypeError instead of 'retry later' (C06/C20)"""
    a = Node("A", D(1), 0, 1)
    p = Pull("P", 1, 1, eager=True)
    b = Node("B", D(1), 1, 0)
    c = compo([b, p, a])
    a.outputs["out0"] >> DelayFixed(D(1)) >> p.inputs["in0"]
    p.outputs["out0"] >> b.inputs["in0"]
    c.run(start_time=S, end_time=S + D(3))


def F18():
    """to_compressed refuses quantified (unmasked) data when the mask is passed separately (C18)"""
    m = np.array([[True, False], [False, False]])
    x = fm.UNITS.Quantity(np.arange(4.0).reshape(2, 2), "m")
    c = fm.data.tools.to_compressed(x, order="F", mask=m)
    assert np.array_equal(c.magnitude, [2.0, 1.0, 3.0]) and c.units == fm.UNITS.Unit("m"), c
    back = fm.data.tools.from_compressed(c, (2, 2), order="F", mask=m)
    assert np.array_equal(np.ma.getmaskarray(back.magnitude), m)


def F20():
    """input info keeps the source's mask layout although the input grid is laid out differently (C07)"""
    g1 = fm.UniformGrid((3, 4))
    g2 = fm.UniformGrid((3, 4), axes_reversed=True, axes_increase=(True, False))
    m1 = np.array([[True, False, False], [False, False, False]])
    out = fm.Output(name="o", info=fm.Info(time=S, grid=g1, units="m", mask=m1))
    inp = fm.Input(name="i", info=fm.Info(time=S, grid=g2, units="m", mask=fm.Mask.FLEX))
    out >> inp
    inp.ping()
    inp.exchange_info()
    out.push_data(np.arange(6.0).reshape(2, 3), S)
    got = inp.pull_data(S)
    data_mask = np.ma.getmaskarray(got.magnitude)[0]
    assert np.shape(inp.info.mask) == tuple(g2.data_shape) and np.array_equal(inp.info.mask, data_mask), (inp.info.mask, data_mask)


def F21():
    """two static outputs of one component, the first read by a timed input, the second by a static input: connect fails (C03/C06)"""
    import logging
    from datetime import timedelta

    class Cons(fm.TimeComponent):
        def __init__(self):
            super().__init__()
            self._time = S

        def _next_time(self):
            return self.time + timedelta(days=1)

        def _initialize(self):
            self.inputs.add(name="a", time=self.time, grid=fm.NoGrid(), units="m")
            self.inputs.add(name="b", static=True, time=None, grid=fm.NoGrid(), units="m")
            self.create_connector(pull_data=["a", "b"])

        def _connect(self, st):
            self.try_connect(st)

        def _validate(self):
            pass

        def _update(self):
            self._time = self._next_time()

        def _finalize(self):
            pass

    gen = fm.components.StaticCallbackGenerator({
        "Out1": (lambda: 1.0, fm.Info(time=None, grid=fm.NoGrid(), units="m")),
        "Out2": (lambda: 2.0, fm.Info(time=None, grid=fm.NoGrid(), units="m")),
    })
    c = Cons()
    comp = fm.Composition([gen, c], print_log=False, log_level=logging.CRITICAL)
    gen.outputs["Out1"] >> c.inputs["a"]
    gen.outputs["Out2"] >> c.inputs["b"]
    comp.run(start_time=S, end_time=S + timedelta(days=3))


def F22():
    """AvgOverTime >> DelayFixed below a late-starting source: the clamped request time repeats, the pull fails with 'zero-length' (C01)"""
    from datetime import timedelta

    src = fm.components.CallbackGenerator({"Out": (lambda t: float((t - S).days), fm.Info(time=None, grid=fm.NoGrid(), units="m"))}, S + timedelta(days=5), timedelta(days=5))
    got = []
    cons = fm.components.CallbackComponent({"In": fm.Info(time=None, grid=fm.NoGrid(), units=None)}, {}, lambda ins, t: got.append((t, ins)) or {}, S, timedelta(hours=36), initial_pull=False)
    comp = _quiet_comp([src, cons]) if "_quiet_comp" in globals() else fm.Composition([src, cons], print_log=False, log_level=logging.CRITICAL)
    src.outputs["Out"] >> AvgOverTime(step=0.5) >> DelayFixed(timedelta(days=13)) >> cons.inputs["In"]
    comp.run(start_time=S, end_time=S + timedelta(days=24))


def F23():
    """TimeTrigger with a step finer than its source's republishes the same array: run aborts with FinamDataError (C03)"""
    from datetime import timedelta

    gen = fm.components.CallbackGenerator({"Out": (lambda t: float((t - S).total_seconds()), fm.Info(time=None, grid=fm.NoGrid(), units="m"))}, S, timedelta(hours=3))
    trig = fm.components.TimeTrigger(start=S, step=timedelta(hours=1), in_info=fm.Info(time=None, grid=fm.NoGrid(), units=None))
    sink = fm.components.DebugPushConsumer({"In": fm.Info(time=None, grid=fm.NoGrid(), units=None)})
    comp = fm.Composition([gen, trig, sink], print_log=False, log_level=logging.CRITICAL)
    gen.outputs["Out"] >> trig.inputs["In"]
    trig.outputs["Out"] >> sink.inputs["In"]
    comp.run(start_time=S, end_time=S + timedelta(hours=12))


ALL = ["F1", "F2", "F3", "F3b", "F4", "F5", "F6", "F7", "F8", "F9", "F10", "F11", "F13", "F14", "F15", "F16", "F17", "F18", "F20", "F21", "F22", "F23"]

if __name__ == "__main__":
    names = sys.argv[1:] or ALL
    verbose = os.environ.get("V")
    for n in names:
        try:
            globals()[n]()
            print(f"{n:4s} OK      {globals()[n].__doc__}")
        except Exception as e:  # pylint: disable=broad-except
            print(f"{n:4s} DEFECT  {type(e).__name__}: {str(e)[:150]!r}   -- {globals()[n].__doc__}")
            if verbose:
                traceback.print_exc()
